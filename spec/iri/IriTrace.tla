------------------------------ MODULE IriTrace ------------------------------
(* Trace judge for C15.  Lines (ndjson, TRACE_FILE); text = code point arrays.                 *)
(*  iri  : [t, i, op, x, err, U, UU, I, II, IU, UIU, IUIU, UI, IUI, UIUI, hostU, hostA]          *)
(*         U = iri_to_uri(x), UU = iri_to_uri(U), I = uri_to_iri(x), II = uri_to_iri(I),          *)
(*         IU = uri_to_iri(U), UIU = iri_to_uri(IU), IUIU = uri_to_iri(UIU), UI = iri_to_uri(I),  *)
(*         IUI = uri_to_iri(UI), UIUI = iri_to_uri(IUI); hostU / hostA = the host of x in         *)
(*         Unicode and in IDNA form (environment facts: Python's idna codec is outside)          *)
(*  dance: [t, i, op, s, d, back, err]   d = _wsgi_encoding_dance(s), back = _wsgi_decoding_dance(d) *)
(*  env  : [t, i, op, path, pairs, scheme, hostU, hostA, port, root, err,                        *)
(*          rpath, rargs, rhost, rurl, wurl, rbase, rroot]   EnvironBuilder(...) -> Request       *)
(*  disp : [t, i, op, mounts, script0, p, err, app, script1, pinfo1]   DispatcherMiddleware      *)
EXTENDS Iri, Dispatcher, UrlRec, TLC, Json, IOUtils

Lines == ndJsonDeserialize(IOEnv.TRACE_FILE)
VARIABLES l
vars == <<l>>

AllScalar(s) == \A j \in 1..Len(s) : IsScalar(s[j])
NoTabNl(s) == \A j \in 1..Len(s) : s[j] \notin {9, 10, 13}
NoRaw(s, S) == \A j \in 1..Len(s) : s[j] \notin S
PortOK(p) == p = <<>> \/ (IsDigits(p) /\ p[1] # 48 /\ Len(p) <= 4)
SchemeOK(s) == s # <<>> /\ \A j \in 1..Len(s) : s[j] >= 97 /\ s[j] <= 122

\* ---------------------------------------------------------------- iri lines
LowerA(s) == [j \in 1..Len(s) |-> IF s[j] >= 65 /\ s[j] <= 90 THEN s[j] + 32 ELSE s[j]]
IriDomain(r, sx) ==
  /\ AllScalar(r.x) /\ NoTabNl(r.x)
  /\ sx.ok /\ SchemeOK(sx.scheme) /\ PortOK(sx.port)
  \* the host of x may be spelled in any ASCII letter case (ACE labels, names, IPv6 hex digits); hostU / hostA are the
  \* lower-case facts
  /\ sx.host # <<>> /\ (LowerA(sx.host) = r.hostU \/ LowerA(sx.host) = r.hostA)
  /\ (sx.haspass => sx.user # <<>>)
  /\ NoRaw(sx.user, Forbidden("user")) /\ NoRaw(sx.pass, Forbidden("user"))

Comps == <<"user", "pass", "path", "query", "frag">>
KindOf(c) == IF c = "pass" THEN "user" ELSE c
Get(s, c) == CASE c = "user" -> s.user [] c = "pass" -> s.pass [] c = "path" -> s.path [] c = "query" -> s.query [] c = "frag" -> s.frag

SameMeaning(sx, so) == \A j \in 1..Len(Comps) : Mean(KindOf(Comps[j]), Get(so, Comps[j])) = Mean(KindOf(Comps[j]), Get(sx, Comps[j]))
SameKept(sx, so) == \A j \in 1..Len(Comps) : KeptEsc(KindOf(Comps[j]), Get(so, Comps[j])) = KeptEsc(KindOf(Comps[j]), Get(sx, Comps[j]))
SameFrame(sx, so, host) == so.ok /\ so.scheme = sx.scheme /\ so.port = sx.port /\ LowerA(so.host) = host
\* a clean IRI: nothing that either direction has to keep quoted
Clean(s) == \A j \in 1..Len(s) : s[j] # PCT /\ s[j] > 32 /\ s[j] # 127
CleanUrl(sx) == \A j \in 1..Len(Comps) : Clean(Get(sx, Comps[j]))
SameComps(sx, so) == \A j \in 1..Len(Comps) : Get(so, Comps[j]) = Get(sx, Comps[j])

JudgeIri(r) ==
  LET sx == SplitUrl(r.x) IN
  IF ~IriDomain(r, sx) THEN "ok"
  ELSE IF r.err # "" THEN "IriRaised"
  ELSE IF ~IsAsciiSeq(r.U) THEN "UriNotAscii"
  ELSE IF r.UU # r.U THEN "UriNotIdempotent"
  ELSE IF r.II # r.I THEN "IriNotIdempotent"
  ELSE IF r.IUIU # r.IU THEN "IriUriRoundTripNotFixpoint"
  ELSE IF r.UIUI # r.UI THEN "UriIriRoundTripNotFixpoint"
  ELSE LET su == SplitUrl(r.U) si == SplitUrl(r.I) siu == SplitUrl(r.IU) sui == SplitUrl(r.UI) IN
       IF ~SameFrame(sx, su, r.hostA) \/ ~SameFrame(sx, sui, r.hostA) THEN "UriFrameChanged"
       ELSE IF ~SameFrame(sx, si, r.hostU) \/ ~SameFrame(sx, siu, r.hostU) THEN "IriFrameChanged"
       ELSE IF ~SameMeaning(sx, su) THEN "UriMeaningChanged"
       ELSE IF ~SameMeaning(sx, si) THEN "IriMeaningChanged"
       ELSE IF ~SameMeaning(sx, siu) \/ ~SameMeaning(sx, sui) THEN "RoundTripMeaningChanged"
       ELSE IF ~SameKept(sx, si) \/ ~SameKept(su, siu) THEN "IriUnquotedReserved"
       ELSE IF CleanUrl(sx) /\ ~SameComps(sx, siu) THEN "NotUndone"
       ELSE "ok"

Short(s) == Len(s) <= 80
DriftIri(r) ==
  LET sx == SplitUrl(r.x) IN
  IF ~IriDomain(r, sx) \/ r.err # "" \/ ~Short(r.x) THEN TRUE
  ELSE LET su == SplitUrl(r.U) si == SplitUrl(r.I) IN
       su.ok /\ si.ok /\ \A j \in 1..Len(Comps) :
          LET c == Comps[j] k == KindOf(c) IN
          /\ Get(su, c) = ToUriC(k, Get(sx, c))
          /\ Get(si, c) = ToIriC(k, Get(sx, c))

\* ---------------------------------------------------------------- dance lines
JudgeDance(r) == IF ~AllScalar(r.s) THEN "ok"
                 ELSE IF r.err # "" THEN "DanceRaised"
                 ELSE IF \E j \in 1..Len(r.d) : r.d[j] > 255 THEN "DanceNotLatin1"
                 ELSE IF r.back # r.s THEN "DanceLossy"
                 ELSE "ok"
DriftDance(r) == ~AllScalar(r.s) \/ r.err # "" \/ r.d = Dance(r.s)

\* ---------------------------------------------------------------- environ lines
PairsScalar(ps) == \A j \in 1..Len(ps) : AllScalar(ps[j][1]) /\ AllScalar(ps[j][2])
EnvDomain(r) ==
  /\ AllScalar(r.path) /\ NoTabNl(r.path) /\ NoRaw(r.path, {63, 35})
  /\ r.path # <<>> /\ r.path[1] = 47 /\ (Len(r.path) >= 2 => r.path[2] # 47)
  /\ LET e == DataBytes(r.path) IN Len(e) >= 2 => e[2] # 47      \* nor "//" once percent-decoded
  /\ PairsScalar(r.pairs)
  /\ SchemeOK(r.scheme) /\ PortOK(r.port) /\ r.hostU # <<>>
  /\ AllScalar(r.root) /\ NoTabNl(r.root) /\ NoRaw(r.root, {63, 35}) /\ ~HasEsc(r.root)
  /\ (r.root = <<>> \/ (r.root[1] = 47 /\ r.root[Len(r.root)] # 47 /\ (Len(r.root) >= 2 => r.root[2] # 47)))
DefaultPort(scheme, port) == (scheme \in {<<104, 116, 116, 112>>, <<119, 115>>} /\ port = <<56, 48>>)
                             \/ (scheme \in {<<104, 116, 116, 112, 115>>, <<119, 115, 115>>} /\ port = <<52, 52, 51>>)
ShownPort(r) == IF r.port = <<>> \/ DefaultPort(r.scheme, r.port) THEN <<>> ELSE r.port
HostPort(h, p) == IF p = <<>> THEN h ELSE h \o <<58>> \o p
ExpPath(p) == IF ~HasEsc(p) THEN p ELSE Utf8Dec(DataBytes(p))
PathJudgeable(p) == ~HasEsc(p) \/ Utf8Valid(DataBytes(p), 1)

\* a reconstructed URL (Request.url, wsgi.get_current_url(environ); Request.base_url = the same without query)
UrlClause(r, url, withq) ==
  LET su == SplitUrl(url) IN
  IF ~su.ok \/ su.scheme # r.scheme \/ su.hasuser \/ su.frag # <<>> THEN "EnvUrlShape"
  ELSE IF su.host \notin {r.hostU, r.hostA} \/ su.port # ShownPort(r) THEN "EnvUrlHost"
  ELSE IF Mean("path", su.path) # Mean("path", r.root \o r.path) THEN "EnvUrlPath"
  ELSE IF ParseQuery(su.query) # (IF withq THEN r.pairs ELSE <<>>) THEN "EnvUrlQuery"
  ELSE "ok"

JudgeEnv(r) ==
  IF ~EnvDomain(r) THEN "ok"
  ELSE IF r.err # "" THEN "EnvRaised"
  ELSE IF PathJudgeable(r.path) /\ r.rpath # ExpPath(r.path) THEN "EnvPathNotRecovered"
  ELSE IF r.rargs # r.pairs THEN "EnvArgsNotRecovered"
  ELSE IF r.rhost \notin {HostPort(r.hostA, ShownPort(r)), HostPort(r.hostU, ShownPort(r))} THEN "EnvHostNotRecovered"
  ELSE IF r.rroot # r.root THEN "EnvRootNotRecovered"
  ELSE IF HasEsc(r.path) THEN "ok"
  ELSE LET a == UrlClause(r, r.rurl, TRUE) b == UrlClause(r, r.wurl, TRUE) c == UrlClause(r, r.rbase, FALSE) IN
       IF a # "ok" THEN a ELSE IF c # "ok" THEN "EnvBaseUrl" ELSE IF b # "ok" THEN "WsgiGetCurrentUrl" ELSE "ok"
DriftEnv(r) ==
  IF ~EnvDomain(r) \/ r.err # "" \/ HasEsc(r.path) \/ Len(r.rurl) > 120 THEN TRUE
  ELSE LET su == SplitUrl(r.rurl) IN su.ok /\ su.path = ToIriC("path", ToUriC("path", r.root \o r.path))

\* ---------------------------------------------------------------- dispatcher lines
MountSet(ms) == {ms[j] : j \in 1..Len(ms)}
JudgeDisp(r) == IF r.err # "" THEN "DispatchRaised"
                ELSE Clause(MountSet(r.mounts), r.script0, r.p, r.app, r.script1, r.pinfo1)
DriftDisp(r) == r.err # "" \/ LET d == Dispatch(MountSet(r.mounts), r.script0, r.p) IN
                               d.app = r.app /\ d.script = r.script1 /\ d.pinfo = r.pinfo1

\* ---------------------------------------------------------------- urlrec lines: every URL reconstruction entry point
\*  [scheme, hostU, hostA, port, root, path, pairs, err, outs]; root / path = the decoded SCRIPT_NAME / PATH_INFO the
\*  environ denotes (or the arguments of a direct sansio call; <<-2>> = None); outs[j] = [hr, hp, wq, u, again]:
\*  the entry point was given / asked for the root (hr), the path (hp), the query (wq); u = its result,
\*  again = uri_to_iri(u).  Request.url/base_url/root_url/host_url, wsgi.get_current_url in all flag combinations,
\*  sansio.utils.get_current_url with 2..5 arguments.
RecDomain(r) ==
  /\ SchemeOK(r.scheme) /\ PortOK(r.port) /\ r.hostU # <<>> /\ PairsScalar(r.pairs)
  /\ (r.root = ABSENT \/ (AllScalar(r.root) /\ ~HasEsc(r.root)))
  /\ (r.path = ABSENT \/ (AllScalar(r.path) /\ ~HasEsc(r.path)))
OutKind(r, o) == IF ~o.hr \/ r.root = ABSENT THEN "host" ELSE IF ~o.hp \/ r.path = ABSENT THEN "root"
                 ELSE IF o.wq /\ r.pairs # <<>> THEN "full" ELSE "noq"
OutClause(r, o) ==
  LET k == OutKind(r, o) su == SplitUrl(o.u) IN
  IF ~su.ok \/ su.scheme # r.scheme \/ su.hasuser \/ su.frag # <<>> THEN "UrlRecShape"
  ELSE IF LowerA(su.host) \notin {r.hostU, r.hostA} \/ su.port # ShownPort(r) THEN "UrlRecHost"
  ELSE IF Mean("path", su.path) # TextMean(ExpPathText(k, r.root, r.path)) THEN "UrlRecPath"
  ELSE IF k = "full" /\ ParseQuery(su.query) # r.pairs THEN "UrlRecQueryLost"
  ELSE IF k # "full" /\ (su.query # <<>> \/ 63 \in {o.u[j] : j \in 1..Len(o.u)}) THEN "UrlRecQueryUnasked"
  ELSE IF o.again # o.u THEN "UrlRecNotFixpoint"
  ELSE "ok"
JudgeRec(r) ==
  IF ~RecDomain(r) THEN "ok"
  ELSE IF r.err # "" THEN "UrlRecRaised"
  ELSE LET bad == {j \in 1..Len(r.outs) : OutClause(r, r.outs[j]) # "ok"} IN
       IF bad # {} THEN OutClause(r, r.outs[CHOOSE j \in bad : \A k \in bad : j <= k])
       ELSE IF \E j, k \in 1..Len(r.outs) : OutKind(r, r.outs[j]) = OutKind(r, r.outs[k]) /\ r.outs[j].u # r.outs[k].u THEN "UrlRecDisagree"
       ELSE "ok"
\* drift: the path / query text of a full reconstruction equals the model's
DriftRec(r) ==
  IF ~RecDomain(r) \/ r.err # "" \/ r.qraw = ABSENT THEN TRUE
  ELSE \A j \in 1..Len(r.outs) :
         LET o == r.outs[j] su == SplitUrl(o.u)
             m == CurUrlImpl(IF o.hr THEN r.root ELSE ABSENT, IF o.hp THEN r.path ELSE ABSENT, IF o.wq THEN r.qraw ELSE <<>>) IN
         su.ok /\ su.path = m.path /\ su.query = m.query

Verdict(r) == CASE r.op = "iri" -> JudgeIri(r) [] r.op = "dance" -> JudgeDance(r) [] r.op = "env" -> JudgeEnv(r)
                [] r.op = "disp" -> JudgeDisp(r) [] r.op = "urlrec" -> JudgeRec(r) [] OTHER -> "UnknownOp"
Drift(r) == CASE r.op = "iri" -> DriftIri(r) [] r.op = "dance" -> DriftDance(r) [] r.op = "env" -> DriftEnv(r)
              [] r.op = "disp" -> DriftDisp(r) [] r.op = "urlrec" -> DriftRec(r) [] OTHER -> TRUE

Init == l = 1
Next == /\ l <= Len(Lines)
        /\ LET r == Lines[l] v == Verdict(r) IN
           /\ IF v = "ok" THEN TRUE ELSE PrintT(ToJson([reject |-> 1, t |-> r.t, i |-> r.i, clause |-> v]))
           /\ IF v # "ok" \/ Drift(r) THEN TRUE ELSE PrintT(ToJson([drift |-> 1, t |-> r.t, i |-> r.i, what |-> r.op]))
        /\ l' = l + 1
Done == PrintT(ToJson([judged |-> Len(Lines)])) /\ TLCGet("generated") >= 0
=============================================================================
