------------------------------ MODULE MCUrlRec ------------------------------
(* every (root_path, path, query) of a small universe with the boundary values None / '' / '/' *)
EXTENDS UrlRec, TLC, Json
VARIABLES root, path, q
vars == <<root, path, q>>
Roots == {ABSENT, <<>>, <<47>>, <<47, 97, 112, 112>>, <<47, 97, 112, 112, 47>>, <<47, 228, 112, 112>>, <<47, 97, 32, 98>>}
Paths == {ABSENT, <<>>, <<47>>, <<47, 120>>, <<120>>, <<47, 120, 47>>, <<47, 120, 47, 233>>, <<47, 47, 120>>, <<47, 97, 32, 59, 98>>}
Queries == {<<>>, <<97, 61, 98>>, <<107, 61, 37, 67, 51, 37, 65, 57, 38, 122, 61, 49>>, <<97, 61, 98, 43, 99, 37, 50, 54>>}
Init == root \in Roots /\ path \in Paths /\ q \in Queries
NoNext == FALSE /\ UNCHANGED vars
Contract == CurUrlOK(root, path, q)
Export == PrintT(ToJson([root |-> root, path |-> path, q |-> q, kind |-> UrlKind(root, path, q), out |-> CurUrlImpl(root, path, q)]))
=============================================================================
