------------------------------ MODULE MCEnvRT ------------------------------
(* Bounded instances for the C15 growth part: every path "/" ++ symbols and every script root   *)
(* "" or "/" ++ symbols over an alphabet with Unicode, %XX of reserved / '%' / tab / multi-byte, *)
(* ';', ':' ... through builder -> environ -> from_environ -> environ; and the bind_to_environ  *)
(* host table over dotted names with empty labels, letter case and ports.                        *)
EXTENDS EnvRoundTrip, TLC, Json

CONSTANTS Syms, MaxLen, Mode, Labels
VARIABLES x, n
vars == <<x, n>>

\* a / e-acute ; space % %41 %3F %23 %25 4 1 %09 %2F %C3%A9 emoji : = %0A
SymsEnv == { <<97>>, <<47>>, <<233>>, <<59>>, <<32>>, <<37>>, <<37, 52, 49>>, <<37, 51, 70>>, <<37, 50, 51>>, <<37, 50, 53>>,
             <<52>>, <<49>>, <<37, 48, 57>>, <<37, 50, 70>>, <<37, 67, 51, 37, 65, 57>>, <<128512>>, <<58>>, <<61>>, <<37, 48, 65>> }
SymsEnvSmall == { <<97>>, <<47>>, <<233>>, <<59>>, <<37>>, <<37, 52, 49>>, <<37, 51, 70>>, <<37, 50, 51>>, <<37, 50, 53>>,
                  <<52>>, <<49>>, <<37, 48, 57>>, <<37, 50, 70>>, <<37, 67, 51, 37, 65, 57>> }

Init == x = <<>> /\ n = 0
Grow == n < MaxLen /\ (\E s \in Syms : x' = x \o s) /\ n' = n + 1
NoNext == FALSE /\ UNCHANGED vars

PathArg == <<47>> \o x
RootArg == IF x = <<>> THEN <<>> ELSE <<47>> \o x
PathOK == Mode = "env" => PathInverse(PathArg) /\ FirstEmission(PathArg)
ScriptOK == Mode = "env" => ScriptInverse(RootArg)
\* how much of the universe is inside the claim (reported through the export, not a verdict)
Export == IF Mode # "env" THEN TRUE ELSE
  PrintT(ToJson([p |-> PathArg, pdom |-> PathDomain(PathArg), pi |-> PathInfoOf(PathArg), prt |-> RoundTripPath(PathArg),
                 r |-> RootArg, rdom |-> ScriptDomain(RootArg), sn |-> ScriptNameOf(RootArg), srt |-> RoundTripScript(RootArg)]))

\* ---- bind_to_environ host table
LabelsT == { <<97>>, <<98>>, <<>>, <<65, 98>> }
LabelsQ == { <<97>>, <<>>, <<65, 98>> }
Names == {JoinWith(ls, 46) : ls \in (SeqsUpTo(Labels, 3) \ {<<>>})}
Ports == { <<>>, P80, P443, <<58, 56, 48, 56, 48>> }
Schemes == { <<104, 116, 116, 112>>, <<104, 116, 116, 112, 115>>, <<119, 115>> }
HostsWithPort == {nm \o pt : nm \in Names, pt \in Ports}
BindAgree == Mode = "bind" =>
  \A hm \in BOOLEAN, sc \in Schemes, arg \in HostsWithPort \cup {NONE} :
     LET w == StripDefaultPort(sc, LowerText(x)) IN SubdomainImpl(hm, sc, w, arg) = SubdomainSpec(hm, sc, w, arg)
BindInit == x \in HostsWithPort /\ n = 0
BindExport == IF Mode # "bind" THEN TRUE ELSE
  \A sc \in {<<104, 116, 116, 112>>, <<104, 116, 116, 112, 115>>},
     arg \in {NONE, <<97>>, <<98, 46, 97>>, <<65, 98, 46, 97>> \o <<58, 56, 48, 56, 48>>, <<97>> \o P80, <<97>> \o P443, <<97, 46>>} :
     PrintT(ToJson([host |-> x, scheme |-> sc, arg |-> arg, sub |-> SubdomainImpl(FALSE, sc, StripDefaultPort(sc, LowerText(x)), arg)]))
=============================================================================
