----------------------------- MODULE Dispatcher -----------------------------
(* C15, third sentence: DispatcherMiddleware preserves SCRIPT_NAME ++ PATH_INFO and picks the  *)
(* longest matching mount.  Paths and mount prefixes are code point sequences, SL = '/'.       *)
EXTENDS Naturals, Sequences, FiniteSets, Bytes

SL == 47
DEFAULT == <<0>>          \* the identity of the fall-back application (no mount is named so)

\* ---- contract: what the documentation promises -------------------------------------------
\* mount m matches path p iff p = m or p continues after m with a '/'
Matches(m, p) == m = p \/ (Len(p) > Len(m) /\ IsPrefixOf(m, p) /\ p[Len(m) + 1] = SL)
Matching(mounts, p) == {m \in mounts : Matches(m, p)}
Longest(S) == CHOOSE m \in S : \A o \in S : Len(o) <= Len(m)
ExpectedApp(mounts, p) == IF Matching(mounts, p) = {} THEN DEFAULT ELSE Longest(Matching(mounts, p))

\* judged on observables: the app that ran, and the SCRIPT_NAME / PATH_INFO it saw
ContractOK(mounts, script0, p, app, script1, pinfo1) ==
  /\ script1 \o pinfo1 = script0 \o p
  /\ app = ExpectedApp(mounts, p)
  /\ app # DEFAULT => (script1 = script0 \o app)
Clause(mounts, script0, p, app, script1, pinfo1) ==
  IF script1 \o pinfo1 # script0 \o p THEN "DispatchConcat"
  ELSE IF app # ExpectedApp(mounts, p) THEN "DispatchLongestMount"
  ELSE IF app # DEFAULT /\ script1 # script0 \o app THEN "DispatchScriptName"
  ELSE "ok"

\* ---- implementation-shaped: the suffix stripping loop of DispatcherMiddleware.__call__ ------
HasSlash(s) == \E i \in 1..Len(s) : s[i] = SL
LastSlash(s) == CHOOSE i \in 1..Len(s) : s[i] = SL /\ \A j \in (i + 1)..Len(s) : s[j] # SL
RECURSIVE Loop(_, _, _)
Loop(mounts, script, pinfo) ==
  IF HasSlash(script)
  THEN IF script \in mounts THEN [app |-> script, script |-> script, pinfo |-> pinfo]
       ELSE LET i == LastSlash(script) IN Loop(mounts, Take(script, i - 1), <<SL>> \o Drop(script, i) \o pinfo)
  ELSE [app |-> IF script \in mounts THEN script ELSE DEFAULT, script |-> script, pinfo |-> pinfo]
Dispatch(mounts, script0, p) == LET r == Loop(mounts, p, <<>>) IN
  [app |-> r.app, script |-> script0 \o r.script, pinfo |-> r.pinfo]

\* a wrong variant (first matching mount from the left = shortest) used to show non-vacuity
RECURSIVE LoopShortest(_, _, _)
LoopShortest(mounts, p, n) ==
  IF n > Len(p) THEN [app |-> IF p \in mounts THEN p ELSE DEFAULT, script |-> IF p \in mounts THEN p ELSE <<>>, pinfo |-> IF p \in mounts THEN <<>> ELSE p]
  ELSE IF p[n] = SL /\ Take(p, n - 1) \in mounts THEN [app |-> Take(p, n - 1), script |-> Take(p, n - 1), pinfo |-> Drop(p, n - 1)]
  ELSE LoopShortest(mounts, p, n + 1)
=============================================================================
