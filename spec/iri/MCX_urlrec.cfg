CONSTANTS
  Variant = "fixed"
  UrlVariant = "code"
INIT Init
NEXT NoNext
INVARIANT Export
