------------------------------- MODULE UrlRec -------------------------------
(* C15 growth: URL reconstruction.  sansio.utils.get_current_url(scheme, host, root_path, path, *)
(* query_string) as an implementation-shaped model (quote with '%' safe, rstrip/lstrip of '/',   *)
(* query only if non-empty, then uri_to_iri per component) against the contract: "if an optional *)
(* part isn't provided, it and subsequent parts are not included", otherwise the URL denotes     *)
(* root_path without trailing '/' ++ '/' ++ path without leading '/', and keeps a non-empty      *)
(* query whatever the path is (None is "not provided"; '' and '/' are paths).                    *)
(* UrlVariant = "code" | "emptypath" (a wrong variant: an empty path treated like None).         *)
EXTENDS Iri

CONSTANT UrlVariant

ABSENT == <<0 - 2>>                       \* Python None
RECURSIVE ULStrip(_)
ULStrip(s) == IF s # <<>> /\ s[1] = 47 THEN ULStrip(Tail(s)) ELSE s
RECURSIVE URStrip(_)
URStrip(s) == IF s # <<>> /\ s[Len(s)] = 47 THEN URStrip(Take(s, Len(s) - 1)) ELSE s

UPathSafe == SubDelims \cup {47, 58, 64, 37}
UQuerySafe == UPathSafe \cup {63}
QuoteBytes(bs, safe) == PctEncode(bs, {b \in 0..127 : Unreserved(b) \/ b \in safe})

\* what comes after scheme://host : [path, hasq, query]
CurUrlImpl(root, path, q) ==
  IF root = ABSENT THEN [path |-> <<47>>, hasq |-> FALSE, query |-> <<>>]
  ELSE LET pre == QuoteText(URStrip(root), UPathSafe) \o <<47>> IN
       IF path = ABSENT \/ (UrlVariant = "emptypath" /\ path = <<>>) THEN [path |-> ToIriC("path", pre), hasq |-> FALSE, query |-> <<>>]
       ELSE [path |-> ToIriC("path", pre \o QuoteText(ULStrip(path), UPathSafe)),
             hasq |-> q # <<>>,
             query |-> IF q = <<>> THEN <<>> ELSE ToIriC("query", QuoteBytes(q, UQuerySafe))]

\* ---- contract
UrlKind(root, path, q) == IF root = ABSENT THEN "host" ELSE IF path = ABSENT THEN "root" ELSE IF q = <<>> THEN "noq" ELSE "full"
ExpPathText(kind, root, path) == IF kind = "host" THEN <<47>>
                                 ELSE IF kind = "root" THEN URStrip(root) \o <<47>>
                                 ELSE URStrip(root) \o <<47>> \o ULStrip(path)
\* the given root / path are decoded text: only '/' is a delimiter, everything else is data
TextMean(t) == MeanFrom(t, 1, {47})
CurUrlOK(root, path, q) ==
  LET k == UrlKind(root, path, q) r == CurUrlImpl(root, path, q) IN
  /\ Mean("path", r.path) = TextMean(ExpPathText(k, root, path))
  /\ r.hasq = (k = "full")
  /\ (k = "full" => Mean("query", r.query) = Mean("query", q))
=============================================================================
