CONSTANTS
  Variant = "fixed"
  Syms <- SymsSmall
  MaxLen = 3
  KindSet = {"path", "query", "frag", "user"}
INIT Init
NEXT Grow
INVARIANT Export
