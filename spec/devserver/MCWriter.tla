------------------------------ MODULE MCWriter ------------------------------
(* C19(b): the response writer as a decision table.  For the full product                      *)
(*   server protocol x HEAD or not x status code x Content-Length given or not x chunk list     *)
(* the writer model (chunk iff allowed; an empty chunk writes nothing; one last-chunk at the     *)
(* end) is checked against the contract: what a strict client decodes from the body bytes is    *)
(* exactly the concatenation of the application's chunks, the terminator occurs exactly once    *)
(* and nothing follows it, and chunked framing is used only when the property allows it.        *)
(* Variant "naive" frames empty chunks too (a premature terminator) and must fail.              *)
EXTENDS DevServer, TLC, Json

CONSTANTS Variant, ChunkAlpha, MaxChunks, Codes
VARIABLES proto, head, code, hasCL, chunks
vars == <<proto, head, code, hasCL, chunks>>

Init == /\ proto \in {10, 11} /\ head \in BOOLEAN /\ code \in Codes /\ hasCL \in BOOLEAN
        /\ chunks \in SeqsUpTo(ChunkAlpha, MaxChunks)
NoNext == FALSE /\ UNCHANGED vars

chunked == MayChunk(proto, head, code, hasCL)            \* the writer's decision
wb == WireBody(Variant, chunked, chunks)

RoundTrip == LET cb == ClientBody(chunked, wb) IN cb.ok /\ cb.body = Concat(chunks)
\* the property's wording, written out independently of MayChunk
OnlyWhenAllowed == chunked => /\ proto = 11 /\ ~hasCL /\ ~head
                              /\ code \notin 100..199 /\ code # 204 /\ code # 304
UnframedIsVerbatim == ~chunked => wb = Concat(chunks)

Export == PrintT(ToJson([proto |-> proto, head |-> head, code |-> code, hasCL |-> hasCL, chunks |-> chunks, chunked |-> chunked]))
=============================================================================
