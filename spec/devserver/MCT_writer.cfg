CONSTANTS
  Variant = "fixed"
  ChunkAlpha <- AlphaT
  MaxChunks = 3
  Codes = {100, 101, 199, 200, 201, 204, 205, 206, 301, 304, 404, 500, 599}
INIT Init
NEXT NoNext
INVARIANT RoundTrip
INVARIANT OnlyWhenAllowed
INVARIANT UnframedIsVerbatim
