CONSTANTS
  Prefixes <- PrefQ
  Atoms <- AtomsQ
  MaxAtoms = 3
  Queries <- QueriesQ
INIT Init
NEXT NoNext
INVARIANT Export
