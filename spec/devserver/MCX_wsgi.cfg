CONSTANTS
  Acts <- ActsAll
  MaxLen = 3
  Mutant = "none"
INIT Init
NEXT NoNext
INVARIANT ExportBehaviour
