----------------------------- MODULE MCEnviron -----------------------------
(* C19(c): request-target classes.  The generator builds targets                                *)
(*   prefix (origin-form "/", "//", "///", absolute-form with / without port)                    *)
(*   x up to MaxAtoms path atoms (letters, reserved characters, percent-encoded reserved bytes,  *)
(*     percent-encoded UTF-8 of 2/3/4 bytes, stray '%', inner "//")  x  query variants           *)
(* TLC checks the laws of the spec's own functions on every target (splitting loses nothing,     *)
(* the decoded path is inside the claimed domain, percent coding is a retraction, the accepted   *)
(* set has the expected shape) and exports the targets for replay on the real handler.           *)
EXTENDS DevServer, TLC, Json

CONSTANTS Prefixes, Atoms, MaxAtoms, Queries
VARIABLES target
vars == <<target>>

NONE == <<0>>          \* marker: no '?' at all
Init == target \in {pre \o Concat(as) \o (IF q = NONE THEN <<>> ELSE <<QMARK>> \o q) :
                      pre \in Prefixes, as \in SeqsUpTo(Atoms, MaxAtoms), q \in Queries}
NoNext == FALSE /\ UNCHANGED vars

T == SplitTarget(target)
HasQ == \E i \in 1..Len(target) : target[i] = QMARK
SplitLosesNothing == target = (IF T.abs THEN Take(target, 7) \o T.host ELSE <<>>) \o T.path
                                \o (IF HasQ THEN <<QMARK>> \o T.query ELSE <<>>)
InDomain == Utf8Valid(PctDecode(T.path))
PctRetraction == PctDecode(PctEncodeAll(PctDecode(T.path))) = PctDecode(T.path)
ChoicesShape == /\ PctDecode(T.path) \in PathChoices(T)
                /\ Cardinality(PathChoices(T)) <= 2
                /\ (T.abs => Cardinality(PathChoices(T)) = 1)
                /\ \A c \in PathChoices(T) : c = <<>> \/ T.path = <<>> \/ c[1] = SLASH
QueryUntouched == HasQ => IsPrefixOf(T.query, T.query) /\ Drop(target, Len(target) - Len(T.query)) = T.query

Export == PrintT(ToJson([target |-> target]))
=============================================================================
