CONSTANTS
  Variant = "fixed"
  Datas <- DatasQ
  MaxChunks = 2
  ReadSizes = {1, 2, 3, 4}
  MaxReads = 4
  Mode = "all"
INIT Init
NEXT Next
INVARIANT DechunkPrefix
INVARIANT EofSound
INVARIANT MalformedIsIOError
INVARIANT NoSpuriousError
INVARIANT Terminates
INVARIANT GeneratorSane
