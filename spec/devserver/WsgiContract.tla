---------------------------- MODULE WsgiContract ----------------------------
(* PEP 3333 call protocol between a WSGI server and an application, as a function of the     *)
(* application's behaviour; the contract half of WsgiProtocol.tla, shared with the judge.    *)
(*                                                                                           *)
(* An application behaviour is (script, cut): script = sequence of protocol actions          *)
(*   [k |-> "SR",  id, d]  start_response(status_id, headers_id)                             *)
(*   [k |-> "SRX", id, d]  start_response(status_id, headers_id, exc_info)                   *)
(*   [k |-> "W",   id, d]  write(d)  (the callable start_response returned)                  *)
(*   [k |-> "Y",   id, d]  the iterable yields d                                             *)
(*   [k |-> "RAISE", ..]   the application raises                                            *)
(* actions 1..cut run inside the application call, the rest inside the iterable; after the   *)
(* last action the iterable is exhausted.  id \in {"A", "B"} names a (status, headers) pair. *)
(*                                                                                           *)
(* What the client must receive: the status/headers of the LAST valid start_response before   *)
(* the first body byte, then exactly the bytes written / yielded before a failure, the end of *)
(* the response marked (term) only when the application finished; an application that fails   *)
(* before anything was committed is answered with the server's own 500 ("E500").              *)
(* PEP 3333 commits the headers with the first NON-EMPTY chunk; a server that commits with    *)
(* the first chunk of any length is accepted too (mode), so the contract is a set.            *)
EXTENDS Integers, Sequences, Bytes

Failed(com, body, at) == IF com = "" THEN [hdr |-> "E500", body |-> <<>>, term |-> TRUE, at |-> at]
                         ELSE [hdr |-> com, body |-> body, term |-> FALSE, at |-> at]

\* cur = status/headers set but possibly not sent, com = committed (sent), at = index of the failing action (0 none)
RECURSIVE Walk(_, _, _, _, _, _)
Walk(sc, i, cur, com, body, mode) ==
  IF i > Len(sc) THEN
       (IF cur = "" THEN Failed(com, body, i)              \* never started a response
        ELSE [hdr |-> IF com = "" THEN cur ELSE com, body |-> body, term |-> TRUE, at |-> 0])
  ELSE LET a == sc[i] IN
       IF a.k = "SR" THEN (IF cur # "" THEN Failed(com, body, i) ELSE Walk(sc, i + 1, a.id, com, body, mode))
       ELSE IF a.k = "SRX" THEN (IF com # "" THEN Failed(com, body, i) ELSE Walk(sc, i + 1, a.id, com, body, mode))
       ELSE IF a.k \in {"W", "Y"} THEN
            (IF cur = "" THEN Failed(com, body, i)          \* body before start_response
             ELSE Walk(sc, i + 1, cur,
                       IF com # "" THEN com ELSE IF a.d # <<>> \/ mode = "any" THEN cur ELSE "",
                       body \o a.d, mode))
       ELSE Failed(com, body, i)                            \* RAISE

\* close() of the iterable: exactly once iff the application call returned an iterable at all
Outcome(sc, cut, mode) == LET w == Walk(sc, 1, "", "", <<>>, mode) IN
  [hdr |-> w.hdr, body |-> w.body, term |-> w.term, closes |-> IF w.at = 0 \/ w.at > cut THEN 1 ELSE 0]
Outcomes(sc, cut) == {Outcome(sc, cut, "any"), Outcome(sc, cut, "nonempty")}

\* the application itself breaks the protocol (as opposed to raising on its own / re-raising exc_info)
AppViolates(sc) == LET w == Walk(sc, 1, "", "", <<>>, "any") IN
  w.at # 0 /\ (w.at > Len(sc) \/ sc[w.at].k \in {"SR", "W", "Y"})
=============================================================================
