--------------------------- MODULE DevServerTrace ---------------------------
(* Trace judge for C19.  Input: ndjson (TRACE_FILE), one TLC state per line.                   *)
(*  dechunk: [t, i, op, api, wire, reads: <<[n, got, exc]>>, fin]                               *)
(*           DechunkedInput driven directly over `wire`; reads until EOF / exception / bound.   *)
(*  http   : [t, i, op, proto (10|11), raw (request bytes), called,                             *)
(*            saw: [method, path, query, headers: <<<<key, value>>>>],  (what the app saw)      *)
(*            reads, fin  ("cl" for a Content-Length body, else as above),                      *)
(*            did: [code, reason, headers: <<<<name, value>>>>, chunks],  (what the app produced)*)
(*            got (raw bytes the client end of the socket pair received)]                        *)
(* Everything the verdict needs is recomputed here from the raw bytes with the grammar of       *)
(* DevServer.tla; Python supplies no expectation.  Every verdict is total.                      *)
EXTENDS DevServer, TLC, Json, IOUtils

Lines == ndJsonDeserialize(IOEnv.TRACE_FILE)

VARIABLES l
vars == <<l>>

SetOf(sq) == {sq[i] : i \in 1..Len(sq)}
Gots(reads) == Concat([i \in 1..Len(reads) |-> reads[i].got])

\* ---- request side ----
JudgeRequest(x, rq) ==
  IF ~x.called THEN "AppNotCalled"
  ELSE IF x.saw.method # rq.method THEN "MethodFaithful"
  ELSE IF Utf8Valid(PctDecode(rq.target.path)) /\ x.saw.path \notin PathChoices(rq.target) THEN "PathFaithful"
  ELSE IF x.saw.query # rq.target.query THEN "QueryFaithful"
  ELSE IF Len(x.saw.headers) # Len(rq.env) \/ SetOf(x.saw.headers) # SetOf(rq.env) THEN "HeadersFaithful"
  ELSE IF rq.chunked THEN JudgeDechunk(rq.rest, x.reads, x.fin)
  ELSE IF \E i \in 1..Len(x.reads) : x.reads[i].exc # "" THEN "BodyFaithful"
  ELSE IF Gots(x.reads) # Take(rq.rest, rq.clen) THEN "BodyFaithful"
  ELSE "ok"

\* ---- response side ----
JudgeResponse(x, rq) ==
  LET rs      == ParseResponse(x.got)
      d       == x.did
      isHead  == rq.method = HEAD
      srvTE   == CountTE(rs.headers) - CountTE(d.headers)
      chunked == srvTE >= 1
      cb      == ClientBody(chunked, rs.body)
      nobody  == isHead \/ InformationalOrEmpty(d.code)
  IN IF ~rs.ok THEN "ResponseShape"
     ELSE IF rs.code # d.code \/ rs.reason # d.reason THEN "StatusFaithful"
     ELSE IF ~IsSubseq(d.headers, rs.headers) THEN "RespHeadersFaithful"
     ELSE IF \E i \in 1..Len(rs.headers) : rs.headers[i] \notin SetOf(d.headers) /\ LowerS(rs.headers[i][1]) \notin ServerNames
          THEN "RespHeadersExtra"
     ELSE IF srvTE > 1 THEN "RespHeadersExtra"
     ELSE IF chunked /\ ~MayChunk(x.proto, isHead, d.code, HasCLHeader(d.headers)) THEN "ChunkedOnlyWhenAllowed"
     ELSE IF chunked /\ ~cb.ok THEN "SingleTerminator"
     ELSE IF cb.body # Concat(d.chunks) /\ ~(nobody /\ ~chunked /\ rs.body = <<>>) THEN "RespBodyFaithful"
     ELSE "ok"

\* ---- model drift (never a verdict) ----
RECURSIVE ModelReads(_, _, _, _)
ModelReads(w, s, reads, i) ==
  IF i > Len(reads) THEN TRUE
  ELSE LET r == RI("fixed", w, s, reads[i].n, <<>>) IN
       /\ (r.exc # "") = (reads[i].exc # "")
       /\ (r.exc = "" => r.got = reads[i].got)
       /\ (r.exc # "" \/ ModelReads(w, r.s, reads, i + 1))

DriftDechunk(x) == IF x.api \in {"read", "readinto"} /\ ParseChunked(x.wire).st # "unclaimed" /\ ~ModelReads(x.wire, InitS, x.reads, 1)
                   THEN "readinto model vs real reads" ELSE ""
DriftHttp(x, rq) ==
  LET rs == ParseResponse(x.got)  d == x.did
      may == MayChunk(x.proto, rq.method = HEAD, d.code, HasCLHeader(d.headers))
  IN IF ~rs.ok THEN ""
     ELSE IF rs.body # WireBody("fixed", may, d.chunks) THEN "writer model vs real body bytes" ELSE ""

\* <<verdict, drift>>
EvalHttp(x) ==
  LET rq == ParseRequest(x.raw) IN
  IF ~rq.ok THEN <<"TraceShape", "">>
  ELSE LET a == JudgeRequest(x, rq) IN
       IF a # "ok" THEN <<a, "">>
       ELSE LET b == JudgeResponse(x, rq) IN IF b # "ok" THEN <<b, "">> ELSE <<"ok", DriftHttp(x, rq)>>

Eval(x) == CASE x.op = "dechunk" -> LET v == JudgeDechunk(x.wire, x.reads, x.fin) IN
                                    <<v, IF v = "ok" THEN DriftDechunk(x) ELSE "">>
             [] x.op = "http"    -> EvalHttp(x)
             [] OTHER -> <<"ok", "">>

Init == l = 1
Next == /\ l <= Len(Lines)
        /\ LET x == Lines[l]  e == Eval(x) IN
           /\ IF e[1] = "ok" THEN TRUE ELSE PrintT(ToJson([reject |-> 1, t |-> x.t, i |-> x.i, clause |-> e[1]]))
           /\ IF e[2] = "" THEN TRUE ELSE PrintT(ToJson([drift |-> 1, t |-> x.t, i |-> x.i, what |-> e[2]]))
        /\ l' = l + 1

Done == PrintT(ToJson([judged |-> Len(Lines)])) /\ TLCGet("generated") >= 0
=============================================================================
