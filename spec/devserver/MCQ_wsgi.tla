---- MODULE MCQ_wsgi ----
EXTENDS WsgiProtocol
A(k, id, d) == [k |-> k, id |-> id, d |-> d]
ActsAll == { A("SR", "A", <<>>), A("SR", "B", <<>>), A("SRX", "B", <<>>), A("W", "", <<>>), A("W", "", <<119>>),
             A("Y", "", <<>>), A("Y", "", <<121, 48, 13, 10>>), A("RAISE", "", <<>>) }
====
