CONSTANTS
  Variant = "fixed"
  Datas <- DatasOne
  MaxChunks = 2
  ReadSizes = {1}
  MaxReads = 1
  Mode = "all"
INIT Init
NEXT NoNext
INVARIANT ExportWire
