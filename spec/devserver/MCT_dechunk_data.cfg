CONSTANTS
  Variant = "fixed"
  Datas <- DatasT
  MaxChunks = 1
  ReadSizes = {1, 2, 5}
  MaxReads = 3
  Mode = "all"
INIT Init
NEXT Next
INVARIANT DechunkPrefix
INVARIANT EofSound
INVARIANT MalformedIsIOError
INVARIANT NoSpuriousError
INVARIANT Terminates
INVARIANT GeneratorSane
