CONSTANTS
  Acts <- ActsAll
  MaxLen = 5
  Mutant = "none"
INIT Init
NEXT NoNext
INVARIANT ExportBehaviour
