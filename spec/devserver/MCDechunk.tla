----------------------------- MODULE MCDechunk -----------------------------
(* Bounded instance for C19(a): every chunk framing of the generator (sizes in lower / upper  *)
(* case / with a leading zero, CRLF or LF line breaks, the zero chunk), every truncation of    *)
(* it, and the listed defects (negative size, non-hex size, missing / wrong chunk terminator)  *)
(* read through the model of DechunkedInput.readinto with every sequence of read sizes.        *)
(* TLC checks the contract (DechunkPrefix, EofSound, MalformedIsIOError, NoSpuriousError,      *)
(* Terminates) in every reachable state.                                                        *)
EXTENDS DevServer, TLC, Json

CONSTANTS Variant,      \* "fixed" | "orig" (the code before the F17 repair)
          Datas,        \* set of chunk payloads
          MaxChunks,
          ReadSizes,    \* read sizes offered to the application
          MaxReads,     \* after that many reads the rest is drained with one big read
          Mode          \* "all" | "wellformed"
VARIABLES wire, s, out, err, eof, nreads
vars == <<wire, s, out, err, eof, nreads>>

UpperS(t) == [i \in 1..Len(t) |-> Upper(t[i])]
SizeTexts(n) == {HexText(n), UpperS(HexText(n)), <<48>> \o HexText(n)}
LBs == {CRLF, <<LF>>}
ChunkWires == UNION {{st \o lb \o d \o lb : st \in SizeTexts(Len(d)), lb \in LBs} : d \in Datas}
\* (one line-break style per chunk keeps the product small; styles still mix across chunks)
Finals == {<<48>> \o lb \o lb : lb \in LBs} \cup {<<48, 48>> \o CRLF \o CRLF}
Good == {Concat(cs) \o f : cs \in UNION {SeqsLen(ChunkWires, k) : k \in 0..MaxChunks}, f \in Finals}

Prefixes(w) == {SubSeq(w, 1, k) : k \in 0..Len(w)}
\* defects placed at the first chunk header / first chunk terminator
Neg(w) == <<45>> \o w
NonHex(w) == {<<103>> \o w, <<w[1], 122>> \o Tail(w), <<SP>> \o Tail(w)} 
BadTerm(d, rest) == {HexText(Len(d)) \o CRLF \o d \o x \o rest : x \in {<<>>, <<120, 13, 10>>, <<13, 120, 10>>}}
Bad == UNION {Prefixes(w) : w \in Good}
       \cup {Neg(w) : w \in Good} \cup UNION {NonHex(w) : w \in Good}
       \cup UNION {BadTerm(d, f) : d \in Datas, f \in Finals}
Wires == IF Mode = "wellformed" THEN Good ELSE Good \cup Bad

P == ParseChunked(wire)
Big == Len(wire) + 1

Init == /\ wire \in Wires
        /\ s = InitS /\ out = <<>> /\ err = "" /\ eof = FALSE /\ nreads = 0

Read == /\ ~eof /\ err = ""
        /\ \E n \in (IF nreads < MaxReads THEN ReadSizes ELSE {Big}) :
             LET r == RI(Variant, wire, s, n, <<>>) IN
             /\ s' = r.s
             /\ out' = out \o r.got
             /\ err' = r.exc
             /\ eof' = (r.exc = "" /\ r.got = <<>>)
        /\ nreads' = nreads + 1
        /\ UNCHANGED wire

Next == Read
NoNext == FALSE /\ UNCHANGED vars

\* ---- contract (observables: wire, out, err, eof) ----
Claimed            == P.st # "unclaimed"
DechunkPrefix      == Claimed => IsPrefixOf(out, P.pay)
EofSound           == (Claimed /\ eof) => (P.st \in {"complete", "noterm"} /\ out = P.pay)
MalformedIsIOError == (Claimed /\ err # "") => (err = "OSError" /\ P.st \in {"malformed", "noterm"})
NoSpuriousError    == P.st = "complete" => err = ""
Terminates         == nreads <= MaxReads + 2
\* the generator's well-formed wires parse completely under the strict grammar
GeneratorSane      == wire \in Good => (P.st = "complete" /\ P.nxt = Len(wire) + 1)

ExportWire == PrintT(ToJson([wire |-> wire, st |-> P.st, pay |-> P.pay]))
=============================================================================
