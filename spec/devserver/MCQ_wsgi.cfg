CONSTANTS
  Acts <- ActsAll
  MaxLen = 3
  Mutant = "none"
SPECIFICATION Spec
VIEW view
INVARIANT NoBodyBeforeHeaders
INVARIANT CloseAtMostOnce
INVARIANT DoneMatchesContract
PROPERTY HeadersSentOnce
PROPERTY BodyAppendOnly
PROPERTY NothingAfterTerminator
PROPERTY CloseMonotone
PROPERTY Terminates
