CONSTANTS
  Variant = "fixed"
  Datas <- DatasTwo
  MaxChunks = 3
  ReadSizes = {1, 2, 3, 11}
  MaxReads = 4
  Mode = "all"
INIT Init
NEXT Next
INVARIANT DechunkPrefix
INVARIANT EofSound
INVARIANT MalformedIsIOError
INVARIANT NoSpuriousError
INVARIANT Terminates
INVARIANT GeneratorSane
