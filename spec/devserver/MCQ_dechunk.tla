---- MODULE MCQ_dechunk ----
EXTENDS MCDechunk
\* payload bytes: a, CR, LF, '0' (data that looks like framing) ; one 10-byte chunk for the hex letters
DatasQ == {<<97>>, <<48>>, <<13, 10>>, <<97, 98, 99>>}
DatasOne == {<<97>>, <<97, 98, 99>>, <<120, 120, 120, 120, 120, 120, 120, 120, 120, 120>>}
DatasTwo == {<<97>>, <<13, 10, 48>>}
DatasT == SeqsLen({97, 13, 10, 48}, 1) \cup SeqsLen({97, 13, 10, 48}, 2) \cup {<<97, 98, 99>>, <<120, 120, 120, 120, 120, 120, 120, 120, 120, 120, 120>>}
====
