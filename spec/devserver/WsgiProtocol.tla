---------------------------- MODULE WsgiProtocol ----------------------------
(* Temporal specification of serving.WSGIRequestHandler.run_wsgi as a state machine driven   *)
(* by an application behaviour (see WsgiContract.tla), transcribed from the code:            *)
(*   start_response: with exc_info it re-raises once headers were sent, else replaces the    *)
(*     pending status; without exc_info a second call is an AssertionError                   *)
(*   write(d) / a yielded chunk: AssertionError before start_response; the FIRST call sends  *)
(*     the pending status and headers (even for an empty chunk), then the bytes              *)
(*   exhaustion: write(b"") if nothing was sent yet, then the terminator                     *)
(*   any exception: close() of the iterable (if the call returned one), then - if nothing    *)
(*     was sent - the pending status is rolled back and the 500 page is sent, else nothing   *)
(* TLC explores every behaviour of at most MaxLen actions and checks the safety and          *)
(* liveness properties below and that the final wire is one the contract allows.             *)
EXTENDS WsgiContract, FiniteSets, TLC, Json

CONSTANTS Acts, MaxLen, Mutant
VARIABLES script, cut, pc, phase, sset, ssent, wire, term, closes, act
vars == <<script, cut, pc, phase, sset, ssent, wire, term, closes, act>>
view == <<script, cut, pc, phase, sset, ssent, wire, term, closes>>

WellShaped(sc, c) == \A i \in 1..Len(sc) :
   /\ (sc[i].k = "Y" => i > c)
   /\ (sc[i].k = "W" => \E j \in 1..(i - 1) : sc[j].k \in {"SR", "SRX"})
   /\ (sc[i].k = "RAISE" => i = Len(sc))
Behaviours == {<<sc, c>> \in (UNION {SeqsLen(Acts, n) : n \in 0..MaxLen}) \X (0..MaxLen) : c <= Len(sc) /\ WellShaped(sc, c)}

Init == /\ \E b \in Behaviours : script = b[1] /\ cut = b[2]
        /\ pc = 1 /\ phase = "call" /\ sset = "" /\ ssent = "" /\ wire = <<>> /\ term = FALSE /\ closes = 0
        /\ act = "init"

AtAction == /\ phase \in {"call", "iter"} /\ pc <= Len(script) /\ (phase = "call" => pc <= cut)
Cur == script[pc]

\* an exception leaves execute(): the finally block closes the iterable if there is one
Fail(a) == /\ phase' = "error"
           /\ closes' = closes + (IF phase = "iter" THEN 1 ELSE 0)
           /\ act' = a /\ UNCHANGED <<script, cut, pc, sset, ssent, wire, term>>
Step(a) == pc' = pc + 1 /\ act' = a /\ UNCHANGED <<script, cut, phase, term, closes>>

StartResponse == /\ AtAction /\ Cur.k = "SR"
                 /\ IF sset # "" THEN Fail("start_response_twice")
                    ELSE sset' = Cur.id /\ Step("start_response") /\ UNCHANGED <<ssent, wire>>
StartResponseExc == /\ AtAction /\ Cur.k = "SRX"
                    /\ IF ssent # "" /\ Mutant # "exc_info_after_sent" THEN Fail("reraise_exc_info")
                       ELSE sset' = Cur.id /\ Step("start_response_exc") /\ UNCHANGED <<ssent, wire>>
Emit == /\ AtAction /\ Cur.k \in {"W", "Y"}
        /\ IF sset = "" THEN Fail("write_before_start_response")
           ELSE /\ ssent' = (IF ssent = "" THEN sset ELSE ssent)
                /\ wire' = wire \o Cur.d
                /\ sset' = sset /\ Step(IF Cur.k = "W" THEN "write" ELSE "yield")
Raise == AtAction /\ Cur.k = "RAISE" /\ Fail("app_raises")
Return == /\ phase = "call" /\ pc > cut
          /\ phase' = "iter" /\ act' = "return_iterable"
          /\ UNCHANGED <<script, cut, pc, sset, ssent, wire, term, closes>>
Exhaust == /\ phase = "iter" /\ pc > Len(script)
           /\ IF sset = "" THEN Fail("no_start_response")
              ELSE /\ ssent' = (IF ssent = "" THEN sset ELSE ssent)
                   /\ term' = TRUE /\ closes' = closes + 1 /\ phase' = "done" /\ act' = "exhaust_close"
                   /\ UNCHANGED <<script, cut, pc, sset, wire>>
HandleError == /\ phase = "error"
               /\ IF ssent = "" THEN ssent' = "E500" /\ term' = TRUE /\ sset' = "E500"
                  ELSE term' = (Mutant = "terminate_on_error") /\ UNCHANGED <<ssent, sset>>
               /\ phase' = "done" /\ act' = "handle_error"
               /\ UNCHANGED <<script, cut, pc, wire, closes>>

Next == StartResponse \/ StartResponseExc \/ Emit \/ Raise \/ Return \/ Exhaust \/ HandleError
NoNext == FALSE /\ UNCHANGED vars
Spec == Init /\ [][Next]_vars /\ WF_vars(Next)

\* ---- safety ----
NoBodyBeforeHeaders == ssent = "" => wire = <<>>
CloseAtMostOnce     == closes <= 1
DoneMatchesContract == phase = "done" =>
                          [hdr |-> ssent, body |-> wire, term |-> term, closes |-> closes] \in Outcomes(script, cut)
\* ---- action properties ----
HeadersSentOnce        == [][ssent # "" => ssent' = ssent]_vars
BodyAppendOnly         == [][IsPrefixOf(wire, wire')]_vars
NothingAfterTerminator == [][term => (wire' = wire /\ term' /\ ssent' = ssent)]_vars
CloseMonotone          == [][closes' >= closes]_vars
\* ---- liveness ----
Terminates == <>(phase = "done")
ClosedWhenDone == [](phase = "done" => (closes = 1) = (act # "init" /\ \E o \in Outcomes(script, cut) : o.closes = 1))

ExportBehaviour == PrintT(ToJson([script |-> script, cut |-> cut, violates |-> AppViolates(script)]))
=============================================================================
