CONSTANTS
  Variant = "fixed"
  ChunkAlpha <- AlphaQ
  MaxChunks = 2
  Codes = {100, 199, 200, 204, 304, 404}
INIT Init
NEXT NoNext
INVARIANT Export
