CONSTANTS
  Prefixes <- PrefQ
  Atoms <- AtomsQ
  MaxAtoms = 2
  Queries <- QueriesQ
INIT Init
NEXT NoNext
INVARIANT SplitLosesNothing
INVARIANT InDomain
INVARIANT PctRetraction
INVARIANT ChoicesShape
INVARIANT QueryUntouched
