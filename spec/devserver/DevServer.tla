------------------------------ MODULE DevServer ------------------------------
(***************************************************************************)
(* Contract of property C19 (the development server transports requests     *)
(* and responses faithfully) plus the implementation-shaped models of        *)
(* serving.DechunkedInput.readinto and of the response writer in             *)
(* serving.WSGIRequestHandler.run_wsgi.                                      *)
(*                                                                           *)
(* Everything is a function of byte sequences (Seq(0..255), 1-based):        *)
(*   (a) PC / ParseChunked : strict grammar of a chunked body                *)
(*         chunk = 1*HEXDIG (CRLF | LF) data (CRLF | LF)                     *)
(*         last  = 1*"0"    (CRLF | LF) (CRLF | LF)                          *)
(*       result [st, pay, nxt]; st = "complete" | "malformed" | "noterm"     *)
(*       (EOF instead of the line break after the last chunk) | "unclaimed"  *)
(*       (size texts python's int(x,16) tolerates: sign, 0x, _, blanks;      *)
(*       chunk extensions; trailers) - nothing is claimed for those.         *)
(*       pay = the chunk data present on the wire up to the defect.          *)
(*   (b) the writer decision MayChunk and the framing WireBody               *)
(*   (c) ParseRequest: request line / header block / body -> what the        *)
(*       application must see; ParseResponse: what the client received.      *)
(* The grammar is transcribed from RFC 7230 and the property text, not from  *)
(* the code.  The models RI (readinto) and WireBody are transcribed from the *)
(* code and are checked against the contract by TLC (MCDechunk, MCWriter).   *)
(***************************************************************************)
EXTENDS Integers, Sequences, FiniteSets, Bytes

CRLF == <<CR, LF>>
COLON == 58
QMARK == 63
SLASH == 47
PCT == 37
USCORE == 95
COMMA == 44

IsDigit(b) == b >= 48 /\ b <= 57
IsHex(b) == IsDigit(b) \/ (b >= 97 /\ b <= 102) \/ (b >= 65 /\ b <= 70)
HexV(b) == IF IsDigit(b) THEN b - 48 ELSE IF b >= 97 THEN b - 87 ELSE b - 55
Upper(b) == IF b >= 97 /\ b <= 122 THEN b - 32 ELSE b
Lower(b) == IF b >= 65 /\ b <= 90 THEN b + 32 ELSE b
LowerS(s) == [i \in 1..Len(s) |-> Lower(s[i])]
AllHex(s) == \A i \in 1..Len(s) : IsHex(s[i])
AllDigits(s) == \A i \in 1..Len(s) : IsDigit(s[i])

RECURSIVE HexNum(_, _)
HexNum(s, acc) == IF s = <<>> THEN acc ELSE HexNum(Tail(s), acc * 16 + HexV(Head(s)))
RECURSIVE DecNum(_, _)
DecNum(s, acc) == IF s = <<>> THEN acc ELSE DecNum(Tail(s), acc * 10 + (Head(s) - 48))

HexDigitOf(v) == IF v < 10 THEN 48 + v ELSE 87 + v
RECURSIVE HexText(_)
HexText(n) == IF n < 16 THEN <<HexDigitOf(n)>> ELSE HexText(n \div 16) \o <<HexDigitOf(n % 16)>>

\* position of the first byte b at or after p (0 = none)
RECURSIVE FindB(_, _, _)
FindB(s, b, p) == IF p > Len(s) THEN 0 ELSE IF s[p] = b THEN p ELSE FindB(s, b, p + 1)

\* ------------------------------------------------------------------ (a) chunked grammar
\* bytes python's str.strip() removes (latin-1 decoded) / int(x, 16) may tolerate
PyBlank == {9, 10, 11, 12, 13, 28, 29, 30, 31, 32, 133, 160}
Tolerated == PyBlank \cup {43, 45, 95, 120, 88}          \* + - _ x X
SEMI == 59

\* class of a chunk-size line (line break and one CR before it removed):
\*   n >= 0 : strict 1*HEXDIG with that value;  -1 : malformed for every implementation;
\*   -2 : tolerated by some (python int) or legal-but-unsupported (chunk extension): unclaimed
SizeClass(line) ==
  IF Len(line) = 0 THEN 0 - 1
  ELSE IF AllHex(line) THEN (IF Len(line) <= 6 THEN HexNum(line, 0) ELSE 0 - 2)
  ELSE IF \E i \in 1..Len(line) : line[i] = SEMI THEN 0 - 2
  ELSE IF \E i \in 1..Len(line) : ~IsHex(line[i]) /\ line[i] \notin Tolerated THEN 0 - 1
  ELSE IF \A i \in 1..Len(line) : line[i] \in PyBlank THEN 0 - 1
  ELSE IF line[1] = 45 /\ Len(line) >= 2 /\ Len(line) <= 7 /\ AllHex(Tail(line)) /\ HexNum(Tail(line), 0) > 0
       THEN 0 - 1                                         \* negative size
  ELSE 0 - 2

RECURSIVE PC(_, _, _)
PC(w, p, acc) ==
  LET eol == FindB(w, LF, p) IN
  IF eol = 0 THEN [st |-> "malformed", pay |-> acc, nxt |-> Len(w) + 1]      \* unterminated / missing header
  ELSE LET raw  == SubSeq(w, p, eol - 1)
           line == IF Len(raw) > 0 /\ raw[Len(raw)] = CR THEN SubSeq(raw, 1, Len(raw) - 1) ELSE raw
           c    == SizeClass(line)
       IN IF c = 0 - 1 THEN [st |-> "malformed", pay |-> acc, nxt |-> eol + 1]
          ELSE IF c = 0 - 2 THEN [st |-> "unclaimed", pay |-> acc, nxt |-> eol + 1]
          ELSE IF c = 0 THEN
               (IF eol + 1 <= Len(w) /\ w[eol + 1] = LF THEN [st |-> "complete", pay |-> acc, nxt |-> eol + 2]
                ELSE IF eol + 2 <= Len(w) /\ w[eol + 1] = CR /\ w[eol + 2] = LF
                     THEN [st |-> "complete", pay |-> acc, nxt |-> eol + 3]
                ELSE IF eol = Len(w) \/ (eol + 1 = Len(w) /\ w[eol + 1] = CR)
                     THEN [st |-> "noterm", pay |-> acc, nxt |-> Len(w) + 1]
                ELSE [st |-> "unclaimed", pay |-> acc, nxt |-> eol + 1])     \* trailers / junk after last-chunk
          ELSE IF eol + c > Len(w) THEN [st |-> "malformed", pay |-> acc \o Drop(w, eol), nxt |-> Len(w) + 1]
          ELSE LET acc2 == acc \o SubSeq(w, eol + 1, eol + c)
                   q    == eol + c + 1
               IN IF q <= Len(w) /\ w[q] = LF THEN PC(w, q + 1, acc2)
                  ELSE IF q + 1 <= Len(w) /\ w[q] = CR /\ w[q + 1] = LF THEN PC(w, q + 2, acc2)
                  ELSE [st |-> "malformed", pay |-> acc2, nxt |-> q]          \* missing chunk terminator

ParseChunked(w) == PC(w, 1, <<>>)

\* Contract of a de-chunking reader, judged on what the caller observed:
\* reads = <<[n, got, exc]>> in order, until the first exception / EOF (got = <<>> for n > 0);
\* fin = "eof" | "exc" | "bound" (the driver gave up: no progress).  Returns a clause name or "ok".
RECURSIVE JudgeReads(_, _, _, _, _)
JudgeReads(P, reads, i, pos, fin) ==          \* pos = number of payload bytes delivered so far
  IF P.st = "unclaimed" THEN "ok"
  ELSE IF i > Len(reads) THEN
       (IF fin = "bound" THEN "NoProgress" ELSE "TraceShape")
  ELSE LET r == reads[i] IN
       IF r.exc # "" THEN
            (IF P.st = "complete" THEN "SpuriousError"
             ELSE IF r.exc # "OSError" THEN "MalformedIsIOError"
             ELSE "ok")
       ELSE LET k == Len(r.got) IN
            IF k > r.n THEN "OverLongRead"
            ELSE IF pos + k > Len(P.pay) \/ (k > 0 /\ r.got # SubSeq(P.pay, pos + 1, pos + k)) THEN "DechunkPrefix"
            ELSE IF r.n > 0 /\ k = 0 THEN
                 (IF P.st = "malformed" THEN "MalformedIsIOError"          \* clean EOF on broken framing
                  ELSE IF pos # Len(P.pay) THEN "BodyTruncated" ELSE "ok")
            ELSE JudgeReads(P, reads, i + 1, pos + k, fin)

JudgeDechunk(w, reads, fin) == JudgeReads(ParseChunked(w), reads, 1, 0, fin)

\* ------------------------------------------------------------------ model of DechunkedInput
\* s = [rpos (1-based position in the wire), len, done]; the underlying file blocks until EOF
\* (socket makefile / BufferedReader / BytesIO), so a short read means end of input.
InitS == [rpos |-> 1, len |-> 0, done |-> FALSE]

RECURSIVE LStripB(_)
LStripB(s) == IF s # <<>> /\ Head(s) \in PyBlank THEN LStripB(Tail(s)) ELSE s
RECURSIVE RStripB(_)
RStripB(s) == IF s # <<>> /\ s[Len(s)] \in PyBlank THEN RStripB(SubSeq(s, 1, Len(s) - 1)) ELSE s

\* rfile.readline(): <<line including its LF, new position>>
ReadLine(w, p) == LET eol == FindB(w, LF, p) IN
                  IF eol = 0 THEN <<Drop(w, p - 1), Len(w) + 1>> ELSE <<SubSeq(w, p, eol), eol + 1>>

\* read_chunk_len(): value, or -1 for OSError  (int(line.strip(), 16) on strict / negative / junk texts only)
ChunkLenOf(line) == LET t == RStripB(LStripB(line)) IN
                    IF Len(t) >= 1 /\ Len(t) <= 6 /\ AllHex(t) THEN HexNum(t, 0) ELSE 0 - 1

RECURSIVE RI(_, _, _, _, _)
RI(variant, w, s, n, got) ==
  IF s.done \/ Len(got) >= n THEN [s |-> s, got |-> got, exc |-> ""]
  ELSE LET hdr == IF s.len = 0 THEN ReadLine(w, s.rpos) ELSE <<<<>>, s.rpos>>
           l1  == IF s.len = 0 THEN ChunkLenOf(hdr[1]) ELSE s.len
       IN IF l1 < 0 THEN [s |-> [s EXCEPT !.rpos = hdr[2]], got |-> got, exc |-> "OSError"]
          ELSE LET done1 == l1 = 0
                   k     == IF l1 > 0 THEN Min2(l1, n - Len(got)) ELSE 0
                   data  == IF k > 0 THEN Sub(w, hdr[2], hdr[2] + k - 1) ELSE <<>>
                   short == Len(data) < k
                   p2    == hdr[2] + Len(data)
                   l2    == l1 - k
                   \* the unrepaired code does not look at how much it got: the missing bytes show up as NUL
                   got2  == got \o data \o (IF variant = "orig" /\ k > Len(data) THEN [j \in 1..(k - Len(data)) |-> 0] ELSE <<>>)
               IN IF short /\ variant # "orig" THEN [s |-> [rpos |-> p2, len |-> l1, done |-> done1], got |-> got, exc |-> "OSError"]
                  ELSE IF l2 = 0 THEN
                       LET tl == ReadLine(w, p2) IN
                       IF tl[1] \in {<<LF>>, <<CR, LF>>, <<CR>>}
                       THEN RI(variant, w, [rpos |-> tl[2], len |-> 0, done |-> done1], n, got2)
                       ELSE [s |-> [rpos |-> tl[2], len |-> 0, done |-> done1], got |-> got, exc |-> "OSError"]
                  ELSE RI(variant, w, [rpos |-> p2, len |-> l2, done |-> done1], n, got2)

\* ------------------------------------------------------------------ (b) response writer
InformationalOrEmpty(code) == (code >= 100 /\ code < 200) \/ code = 204 \/ code = 304
\* the property: chunked framing ONLY WHEN all of this holds
MayChunk(proto, isHead, code, hasCL) == proto = 11 /\ ~hasCL /\ ~isHead /\ ~InformationalOrEmpty(code)

LASTCHUNK == <<48, 13, 10, 13, 10>>
FrameOne(variant, c) == IF c = <<>> /\ variant # "naive" THEN <<>> ELSE HexText(Len(c)) \o CRLF \o c \o CRLF
WireBody(variant, chunked, chunks) ==
  IF chunked THEN Concat([i \in 1..Len(chunks) |-> FrameOne(variant, chunks[i])]) \o LASTCHUNK
  ELSE Concat(chunks)

\* what a client decodes from the body bytes: [ok, body]
ClientBody(chunked, wb) == IF chunked THEN LET P == ParseChunked(wb) IN
                                [ok |-> P.st = "complete" /\ P.nxt = Len(wb) + 1, body |-> P.pay]
                           ELSE [ok |-> TRUE, body |-> wb]

\* ------------------------------------------------------------------ (c) text helpers
\* One pass over a message head: the lines up to the first empty line.
\* [ok (an empty line was found), lines, body (1-based position of the first body byte)]
RECURSIVE HeadScan(_, _, _, _)
HeadScan(s, p, start, acc) ==
  IF p >= Len(s) THEN [ok |-> FALSE, lines |-> Append(acc, SubSeq(s, start, Len(s))), body |-> Len(s) + 1]
  ELSE IF s[p] = CR /\ s[p + 1] = LF
       THEN (IF p = start /\ acc # <<>> THEN [ok |-> TRUE, lines |-> acc, body |-> p + 2]
             ELSE HeadScan(s, p + 2, p + 2, Append(acc, SubSeq(s, start, p - 1))))
       ELSE HeadScan(s, p + 1, start, acc)
HeadOf(s) == HeadScan(s, 1, 1, <<>>)

RECURSIVE LStripSP(_)
LStripSP(s) == IF s # <<>> /\ Head(s) \in {SP, TAB} THEN LStripSP(Tail(s)) ELSE s
RECURSIVE RStripSP(_)
RStripSP(s) == IF s # <<>> /\ s[Len(s)] \in {SP, TAB} THEN RStripSP(SubSeq(s, 1, Len(s) - 1)) ELSE s

\* percent-decoding: %XX with two hex digits becomes that byte, everything else is literal
RECURSIVE PctDecode(_)
PctDecode(s) == IF s = <<>> THEN <<>>
                ELSE IF s[1] = PCT /\ Len(s) >= 3 /\ IsHex(s[2]) /\ IsHex(s[3])
                     THEN <<HexV(s[2]) * 16 + HexV(s[3])>> \o PctDecode(Drop(s, 3))
                ELSE <<s[1]>> \o PctDecode(Tail(s))

UpHexDigit(v) == IF v < 10 THEN 48 + v ELSE 55 + v
PctEncodeAll(s) == Concat([i \in 1..Len(s) |-> <<PCT, UpHexDigit(s[i] \div 16), UpHexDigit(s[i] % 16)>>])

Cont(b) == b >= 128 /\ b <= 191
\* well-formed UTF-8 (Unicode table 3-7): the domain of "percent-encoded UTF-8"
RECURSIVE Utf8Valid(_)
Utf8Valid(s) ==
  IF s = <<>> THEN TRUE
  ELSE LET a == s[1] n == Len(s) IN
       IF a <= 127 THEN Utf8Valid(Tail(s))
       ELSE IF a >= 194 /\ a <= 223 THEN n >= 2 /\ Cont(s[2]) /\ Utf8Valid(Drop(s, 2))
       ELSE IF a >= 224 /\ a <= 239 THEN
            /\ n >= 3 /\ Cont(s[2]) /\ Cont(s[3])
            /\ (a = 224 => s[2] >= 160) /\ (a = 237 => s[2] <= 159)
            /\ Utf8Valid(Drop(s, 3))
       ELSE IF a >= 240 /\ a <= 244 THEN
            /\ n >= 4 /\ Cont(s[2]) /\ Cont(s[3]) /\ Cont(s[4])
            /\ (a = 240 => s[2] >= 144) /\ (a = 244 => s[2] <= 143)
            /\ Utf8Valid(Drop(s, 4))
       ELSE FALSE

RECURSIVE StripSlashes(_)
StripSlashes(s) == IF s # <<>> /\ Head(s) = SLASH THEN StripSlashes(Tail(s)) ELSE s

HTTPSCHEME == <<104, 116, 116, 112, 58, 47, 47>>        \* "http://"
HTTP_ == <<72, 84, 84, 80, 95>>                         \* "HTTP_"
K_CT == <<67, 79, 78, 84, 69, 78, 84, 95, 84, 89, 80, 69>>                \* CONTENT_TYPE
K_CL == <<67, 79, 78, 84, 69, 78, 84, 95, 76, 69, 78, 71, 84, 72>>        \* CONTENT_LENGTH
K_HOST == HTTP_ \o <<72, 79, 83, 84>>                                      \* HTTP_HOST
K_TE == HTTP_ \o <<84, 82, 65, 78, 83, 70, 69, 82, 95, 69, 78, 67, 79, 68, 73, 78, 71>>   \* HTTP_TRANSFER_ENCODING
CHUNKED == <<99, 104, 117, 110, 107, 101, 100>>
HEAD == <<72, 69, 65, 68>>

FirstOf(s, set, p) == LET c == {i \in p..Len(s) : s[i] \in set} IN
                      IF c = {} THEN 0 ELSE CHOOSE i \in c : \A j \in c : i <= j

\* request target -> [path (raw), query, host (<<>> unless absolute-form), abs]
SplitTarget(tg) ==
  LET abs  == IsPrefixOf(HTTPSCHEME, LowerS(Take(tg, 7)))
      rest == IF abs THEN Drop(tg, 7) ELSE tg
      cut  == IF abs THEN FirstOf(rest, {SLASH, QMARK}, 1) ELSE 1
      host == IF ~abs THEN <<>> ELSE IF cut = 0 THEN rest ELSE SubSeq(rest, 1, cut - 1)
      pq   == IF ~abs THEN rest ELSE IF cut = 0 THEN <<>> ELSE Drop(rest, cut - 1)
      qm   == FirstOf(pq, {QMARK}, 1)
  IN [abs |-> abs, host |-> host,
      path |-> IF qm = 0 THEN pq ELSE SubSeq(pq, 1, qm - 1),
      query |-> IF qm = 0 THEN <<>> ELSE Drop(pq, qm)]

\* accepted values of PATH_INFO (as bytes): the percent-decoded path; for an origin-form target
\* that starts with more than one slash also the decoded path with the leading run collapsed
\* (http.server and the repository's own test_double_slash_path document the collapse)
PathChoices(t) == {PctDecode(t.path)} \cup
                  (IF ~t.abs /\ Len(t.path) >= 2 /\ t.path[1] = SLASH /\ t.path[2] = SLASH
                   THEN {PctDecode(<<SLASH>> \o StripSlashes(t.path))} ELSE {})

EnvKey(name) == [i \in 1..Len(name) |-> IF name[i] = 45 THEN USCORE ELSE Upper(name[i])]

PutH(env, key, val, join) ==
  IF \E i \in 1..Len(env) : env[i][1] = key
  THEN [i \in 1..Len(env) |-> IF env[i][1] = key
                               THEN <<key, IF join THEN env[i][2] \o <<COMMA>> \o val ELSE val>> ELSE env[i]]
  ELSE Append(env, <<key, val>>)

\* header lines -> association list <<environ key, value>> (repeats joined, underscore names dropped)
RECURSIVE FoldH(_, _)
FoldH(lines, env) ==
  IF lines = <<>> THEN env
  ELSE LET ln   == Head(lines)
           c    == FindB(ln, COLON, 1)
           name == SubSeq(ln, 1, c - 1)
           val  == RStripSP(LStripSP(Drop(ln, c)))
           k0   == EnvKey(name)
           special == k0 = K_CT \/ k0 = K_CL
       IN IF c <= 1 \/ (\E i \in 1..Len(name) : name[i] = USCORE) THEN FoldH(Tail(lines), env)
          ELSE FoldH(Tail(lines), PutH(env, IF special THEN k0 ELSE HTTP_ \o k0, val, ~special))

Lookup(env, key) == LET c == {i \in 1..Len(env) : env[i][1] = key} IN
                    IF c = {} THEN <<>> ELSE env[CHOOSE i \in c : TRUE][2]
HasKey(env, key) == \E i \in 1..Len(env) : env[i][1] = key

\* raw request bytes -> what the application must see
ParseRequest(raw) ==
  LET hd    == HeadOf(raw)
      lines == hd.lines
      rl    == lines[1]
      s1    == FindB(rl, SP, 1)
      s2    == FindB(rl, SP, s1 + 1)
      tgt   == SplitTarget(SubSeq(rl, s1 + 1, s2 - 1))
      env0  == FoldH(Tail(lines), <<>>)
      env   == IF tgt.abs /\ tgt.host # <<>> THEN
                  (IF HasKey(env0, K_HOST) THEN [i \in 1..Len(env0) |-> IF env0[i][1] = K_HOST THEN <<K_HOST, tgt.host>> ELSE env0[i]]
                   ELSE Append(env0, <<K_HOST, tgt.host>>))
               ELSE env0
      rest  == Drop(raw, hd.body - 1)
      chunked == LowerS(RStripB(LStripB(Lookup(env, K_TE)))) = CHUNKED
      clv   == Lookup(env, K_CL)
  IN [ok |-> hd.ok /\ s1 > 1 /\ s2 > s1 + 1,
      method |-> SubSeq(rl, 1, s1 - 1), target |-> tgt, env |-> env, rest |-> rest, chunked |-> chunked,
      clen |-> IF clv # <<>> /\ AllDigits(clv) /\ Len(clv) <= 8 THEN DecNum(clv, 0) ELSE 0]

\* raw response bytes -> [ok, proto (10 | 11), code (digits), reason, headers <<name, value>>, body]
ParseResponse(got) ==
  LET hd    == HeadOf(got)
      lines == hd.lines
      sl    == lines[1]
      okSL  == /\ Len(sl) >= 12
               /\ SubSeq(sl, 1, 7) = <<72, 84, 84, 80, 47, 49, 46>> /\ sl[8] \in {48, 49} /\ sl[9] = SP
               /\ AllDigits(SubSeq(sl, 10, 12)) /\ (Len(sl) = 12 \/ sl[13] = SP)
      hl    == Tail(lines)
      okH   == \A i \in 1..Len(hl) : LET c == FindB(hl[i], COLON, 1) IN c > 1 /\ c < Len(hl[i]) /\ hl[i][c + 1] = SP
  IN IF ~hd.ok \/ ~okSL \/ ~okH THEN [ok |-> FALSE, proto |-> 0, code |-> 0, reason |-> <<>>, headers |-> <<>>, body |-> <<>>]
     ELSE [ok |-> TRUE, proto |-> IF sl[8] = 49 THEN 11 ELSE 10, code |-> DecNum(SubSeq(sl, 10, 12), 0),
           reason |-> Drop(sl, 13),
           headers |-> [i \in 1..Len(hl) |-> LET c == FindB(hl[i], COLON, 1) IN <<SubSeq(hl[i], 1, c - 1), Drop(hl[i], c + 1)>>],
           body |-> Drop(got, hd.body - 1)]

\* is a a subsequence of b (order kept)
RECURSIVE IsSubseq(_, _)
IsSubseq(a, b) == IF a = <<>> THEN TRUE ELSE IF b = <<>> THEN FALSE
                  ELSE IF Head(a) = Head(b) THEN IsSubseq(Tail(a), Tail(b)) ELSE IsSubseq(a, Tail(b))

\* header names the server may add on its own
ServerNames == { <<115,101,114,118,101,114>>, <<100,97,116,101>>, <<99,111,110,110,101,99,116,105,111,110>>,
                 <<116,114,97,110,115,102,101,114,45,101,110,99,111,100,105,110,103>> }
N_TE == <<116,114,97,110,115,102,101,114,45,101,110,99,111,100,105,110,103>>
N_CL == <<99,111,110,116,101,110,116,45,108,101,110,103,116,104>>
CountTE(hs) == Cardinality({i \in 1..Len(hs) : LowerS(hs[i][1]) = N_TE /\ LowerS(hs[i][2]) = CHUNKED})
HasCLHeader(hs) == \E i \in 1..Len(hs) : LowerS(hs[i][1]) = N_CL
=============================================================================
