------------------------- MODULE WsgiProtocolTrace -------------------------
(* Trace judge for the WSGI call protocol part of C19 (clauses Proto...).                    *)
(*  wsgi: [t, i, op, proto (10|11), script, cut, got (raw bytes the client received),         *)
(*         closes (close() calls seen by the scripted iterable), lint (LintMiddleware emitted *)
(*         a WSGI protocol warning for the same behaviour), lintrun]                           *)
(*  pipe: [t, i, op, n (requests pipelined on one connection), got]     (drift only)           *)
(* The expectation (WsgiContract!Outcomes) is computed here from (script, cut) alone.          *)
EXTENDS DevServer, WsgiContract, TLC, Json, IOUtils

Lines == ndJsonDeserialize(IOEnv.TRACE_FILE)
VARIABLES l
vars == <<l>>

N_XID == <<120, 45, 105, 100>>                         \* x-id
IdOf(rs) == IF rs.code = 500 THEN "E500"
            ELSE LET c == {i \in 1..Len(rs.headers) : LowerS(rs.headers[i][1]) = N_XID} IN
                 IF Cardinality(c) # 1 THEN "?"
                 ELSE LET v == rs.headers[CHOOSE i \in c : TRUE][2] IN
                      IF v = <<65>> /\ rs.code = 201 /\ rs.reason = <<65>> THEN "A"
                      ELSE IF v = <<66>> /\ rs.code = 404 /\ rs.reason = <<66>> THEN "B" ELSE "?"

\* <<verdict, drift>>
EvalWsgi(x) ==
  LET rs      == ParseResponse(x.got)
      outs    == Outcomes(x.script, x.cut)
      chunked == CountTE(rs.headers) >= 1
      P       == ParseChunked(rs.body)
      id      == IdOf(rs)
      body    == IF chunked THEN P.pay ELSE rs.body
      term    == P.st = "complete"
      sameH   == {o \in outs : o.hdr = id}
      sameB   == {o \in sameH : id = "E500" \/ o.body = body}
      sameT   == {o \in sameB : id = "E500" \/ ~chunked \/ o.term = term}
      v == IF ~rs.ok THEN "ProtoShape"
           ELSE IF x.proto = 11 /\ id # "E500" /\ ~chunked THEN "ProtoShape"
           ELSE IF sameH = {} THEN "ProtoStatus"
           ELSE IF chunked /\ term /\ P.nxt # Len(rs.body) + 1 THEN "ProtoAfterTerminator"
           ELSE IF chunked /\ ~term /\ (P.st # "malformed" \/ P.nxt # Len(rs.body) + 1) THEN "ProtoBody"
           ELSE IF sameB = {} THEN "ProtoBody"
           ELSE IF sameT = {} THEN "ProtoTerminator"
           ELSE "ok"
      d == IF v # "ok" THEN ""
           ELSE IF {o \in sameT : o.closes = x.closes} = {} THEN "close() count of the application iterable"
           ELSE IF x.lintrun /\ x.lint # AppViolates(x.script) THEN "LintMiddleware warning vs AppViolates"
           ELSE ""
  IN <<v, d>>

Eval(x) == CASE x.op = "wsgi" -> EvalWsgi(x)
             [] x.op = "pipe" -> <<"ok", IF x.responses # x.n THEN "pipelined requests answered: fewer than sent (Connection: close)" ELSE "">>
             [] OTHER -> <<"ok", "">>

Init == l = 1
Next == /\ l <= Len(Lines)
        /\ LET x == Lines[l]  e == Eval(x) IN
           /\ IF e[1] = "ok" THEN TRUE ELSE PrintT(ToJson([reject |-> 1, t |-> x.t, i |-> x.i, clause |-> e[1]]))
           /\ IF e[2] = "" THEN TRUE ELSE PrintT(ToJson([drift |-> 1, t |-> x.t, i |-> x.i, what |-> e[2]]))
        /\ l' = l + 1
Done == PrintT(ToJson([judged |-> Len(Lines)])) /\ TLCGet("generated") >= 0
=============================================================================
