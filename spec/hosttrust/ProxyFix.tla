------------------------------- MODULE ProxyFix -------------------------------
(* C20, growth: the two places where the Host a request is judged by can be replaced        *)
(* before the trust check.                                                                   *)
(*                                                                                          *)
(* (1) werkzeug.middleware.proxy_fix.ProxyFix as a decision table.  For each of the five    *)
(*     X-Forwarded-* headers the value the n-th trusted proxy wrote is the n-th value from   *)
(*     the RIGHT of the comma separated list (plain comma split, no quoted strings; whether  *)
(*     an empty piece counts is left open: two readings) (x_* = n); n = 0, an absent / empty header, *)
(*     fewer than n values or an empty selected value leave the environ untouched.  Values   *)
(*     further left (whatever the client sent) never matter.                                 *)
(*        For    -> REMOTE_ADDR          Proto  -> wsgi.url_scheme      Prefix -> SCRIPT_NAME *)
(*        Host   -> HTTP_HOST and SERVER_NAME; "name:port" (last colon, unless the value     *)
(*                  ends with "]") also splits into SERVER_NAME / SERVER_PORT                 *)
(*        Port   -> SERVER_PORT, and HTTP_HOST (if there is one) gets its port replaced      *)
(*     The values seen before the rewrite are kept under werkzeug.proxy_fix.orig.            *)
(* (2) The host a Request is judged by: HTTP_HOST, else SERVER_NAME (bracketed if it is a    *)
(*     bare literal) plus ":" SERVER_PORT when that is a number; the scheme's standard port  *)
(*     is dropped; then the trusted-host list decides (HostTrust!Verdicts).                  *)
(*                                                                                          *)
(* Text = sequence of code points.  env = [remote, scheme, hostp, host, sname, sport, script]*)
(* (hostp: HTTP_HOST present), hd = [for, proto, host, port, prefix], each [p, text].        *)
EXTENDS HostTrust

COMMA == 44
IsWS(c) == c = 32 \/ c = 9

RECURSIVE LStrip(_)
LStrip(s) == IF s # <<>> /\ IsWS(s[1]) THEN LStrip(Tail(s)) ELSE s
RECURSIVE RStrip(_)
RStrip(s) == IF s # <<>> /\ IsWS(s[Len(s)]) THEN RStrip(Take(s, Len(s) - 1)) ELSE s
Strip(s) == RStrip(LStrip(s))

RECURSIVE SplitComma(_, _)
SplitComma(s, cur) == IF s = <<>> THEN <<cur>>
                      ELSE IF Head(s) = COMMA THEN <<cur>> \o SplitComma(Tail(s), <<>>)
                      ELSE SplitComma(Tail(s), Append(cur, Head(s)))

\* The values of an X-Forwarded-* list.  Each proxy appends ", <its value>": the values are the comma
\* separated pieces, white space aside; quoted strings are no part of the syntax (repo fix 2d7315b).
\* The documentation does not say what an EMPTY piece counts for, so there are two readings:
\*   "counted"  every piece is a value (what the code does: value.split(","))
\*   "ignored"  empty pieces are no values
Pieces(text) == LET ps == SplitComma(text, <<>>) IN [i \in 1..Len(ps) |-> Strip(ps[i])]
ListValues(text) == Pieces(text)
ValuesR(reading, text) == IF reading = "ignored" THEN SelectSeq(Pieces(text), LAMBDA x : x # <<>>) ELSE Pieces(text)
Readings == {"counted", "ignored"}

\* The list parser the middleware used before that fix (and Request.access_route still uses):
\* urllib's parse_http_list + parse_list_header.  A double quote opens a quoted string in which
\* commas do not separate (a backslash escapes the next character); a last empty part is dropped;
\* parts are stripped and lose a pair of surrounding quotes.  ONE quote sent by the client therefore
\* merges everything the proxies appended into the client's item.
DQ  == 34
BSL == 92
RECURSIVE HttpList(_, _, _, _)
HttpList(s, part, quote, escape) ==
  IF s = <<>> THEN (IF part # <<>> THEN <<part>> ELSE <<>>)
  ELSE LET c == Head(s) r == Tail(s) IN
       IF escape THEN HttpList(r, Append(part, c), quote, FALSE)
       ELSE IF quote THEN (IF c = BSL THEN HttpList(r, part, TRUE, TRUE)
                           ELSE HttpList(r, Append(part, c), c # DQ, FALSE))
       ELSE IF c = COMMA THEN <<part>> \o HttpList(r, <<>>, FALSE, FALSE)
       ELSE HttpList(r, Append(part, c), c = DQ, FALSE)
Unquote(x) == IF Len(x) >= 2 /\ x[1] = DQ /\ x[Len(x)] = DQ THEN SubSeq(x, 2, Len(x) - 1) ELSE x
QuotedListValues(text) == LET ps == HttpList(text, <<>>, FALSE, FALSE) IN [i \in 1..Len(ps) |-> Unquote(Strip(ps[i]))]

\* the value to trust, <<>> = leave the environ alone
PickVals(n, vals) == IF n = 0 \/ Len(vals) < n THEN <<>> ELSE vals[Len(vals) - n + 1]
Pick(n, h) == IF n = 0 \/ ~h.p \/ h.text = <<>> THEN <<>> ELSE PickVals(n, ListValues(h.text))

HasColon(s) == \E i \in 1..Len(s) : s[i] = COLON
EndsBr(s)   == s # <<>> /\ s[Len(s)] = RBR
HasPort(s)  == HasColon(s) /\ ~EndsBr(s)
LastColon(s) == CHOOSE k \in 1..Len(s) : s[k] = COLON /\ \A j \in (k + 1)..Len(s) : s[j] # COLON
NameOfHP(s) == IF HasPort(s) THEN Take(s, LastColon(s) - 1) ELSE s
PortOfHP(s) == IF HasPort(s) THEN Drop(s, LastColon(s)) ELSE <<>>

\* variant "right"   = the table as the code reads it (plain split, every piece counted)
\*         "ignored" = the other documented reading (empty pieces are no values)
\*         "pinned"  = the tree before repo fix 2d7315b (quoted-string list parsing)    -- must be rejected
\*         "left"    = a deliberately wrong table that counts from the client's side     -- must be rejected
PickV(variant, n, h) ==
  IF n = 0 \/ ~h.p \/ h.text = <<>> THEN <<>>
  ELSE CASE variant = "right"   -> PickVals(n, Pieces(h.text))
         [] variant = "ignored" -> PickVals(n, ValuesR("ignored", h.text))
         [] variant = "pinned"  -> PickVals(n, QuotedListValues(h.text))
         [] OTHER -> LET v == Pieces(h.text) IN IF Len(v) < n THEN <<>> ELSE v[n]

Out(variant, cfg, env, hd) ==
  LET xf  == PickV(variant, cfg.x_for, hd.for)
      xpr == PickV(variant, cfg.x_proto, hd.proto)
      xh  == PickV(variant, cfg.x_host, hd.host)
      xp  == PickV(variant, cfg.x_port, hd.port)
      xpf == PickV(variant, cfg.x_prefix, hd.prefix)
      \* X-Forwarded-Host
      hostp1 == env.hostp \/ xh # <<>>
      host1  == IF xh # <<>> THEN xh ELSE env.host
      sname1 == IF xh # <<>> THEN NameOfHP(xh) ELSE env.sname
      sport1 == IF xh # <<>> /\ HasPort(xh) THEN PortOfHP(xh) ELSE env.sport
      \* X-Forwarded-Port
      host2  == IF xp # <<>> /\ hostp1 /\ host1 # <<>> THEN NameOfHP(host1) \o <<COLON>> \o xp ELSE host1
      sport2 == IF xp # <<>> THEN xp ELSE sport1
  IN [remote |-> IF xf # <<>> THEN xf ELSE env.remote,
      scheme |-> IF xpr # <<>> THEN xpr ELSE env.scheme,
      hostp  |-> hostp1, host |-> host2, sname |-> sname1, sport |-> sport2,
      script |-> IF xpf # <<>> THEN xpf ELSE env.script]

(* ---- (2) the host a request is judged by -------------------------------------------------- *)
PortNumber(s) == s # <<>> /\ Len(s) <= 5 /\ AllDigits(s) /\ (s[1] # 48 \/ Len(s) = 1)
\* the generator only produces canonical numbers or non-numbers; anything else: not modelled
PortModelled(s) == s = <<>> \/ PortNumber(s) \/ \E i \in 1..Len(s) : ~(IsDigit(s[i]) \/ IsWS(s[i]) \/ s[i] \in {43, 45, 95})

ServerHost(e) ==
  LET s == e.sname
      w == IF s # <<>> /\ HasColon(s) /\ s[1] # LBR THEN <<LBR>> \o s \o <<RBR>> ELSE s
  IN IF PortNumber(e.sport) THEN w \o <<COLON>> \o e.sport ELSE w

SchemeStd(sch) == IF sch = <<104, 116, 116, 112>> \/ sch = <<119, 115>> THEN <<58, 56, 48>>                   \* http, ws
                  ELSE IF sch = <<104, 116, 116, 112, 115>> \/ sch = <<119, 115, 115>> THEN <<58, 52, 52, 51>> \* https, wss
                  ELSE <<>>
EndsWithS(s, suf) == Len(suf) <= Len(s) /\ Drop(s, Len(s) - Len(suf)) = suf
DropStd(h, sch) == LET sp == SchemeStd(sch) IN IF sp # <<>> /\ EndsWithS(h, sp) THEN Take(h, Len(h) - Len(sp)) ELSE h

RawHost(e)    == IF e.hostp THEN e.host ELSE ServerHost(e)
JudgedHost(e) == DropStd(RawHost(e), e.scheme)

\* acceptable answers of the trust check for an environ (with or without the standard port)
EnvVerdicts(tab, e, trusted) == Verdicts(tab, RawHost(e), trusted) \cup Verdicts(tab, JudgedHost(e), trusted)
\* ... for a request through ProxyFix, under every reading of empty list elements the documentation allows
AllReadingsVerdicts(tab, cfg, env, hd, trusted) ==
  EnvVerdicts(tab, Out("right", cfg, env, hd), trusted) \cup EnvVerdicts(tab, Out("ignored", cfg, env, hd), trusted)
=============================================================================
