CONSTANTS
  Variant = "right"
  MaxHostLen = 3
  MaxPortLen = 2
  MaxOtherLen = 3
INIT Init
NEXT Next
INVARIANT ExtraLeftIrrelevant
INVARIANT ExtraLeftSameVerdict
INVARIANT UntouchedWhenUnconfigured
INVARIANT SelectedHostDecides
INVARIANT LiteralIntact
INVARIANT QuoteExample
