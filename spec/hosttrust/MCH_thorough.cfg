CONSTANTS
  Variant = "fixed"
  MaxLabels = 3
  MaxList = 2
  WithLong = FALSE
INIT Init
NEXT NoNext
INVARIANT ImplMeetsContract
INVARIANT PortAside
INVARIANT NoLookAlike
INVARIANT Monotone
INVARIANT MalformedOut
