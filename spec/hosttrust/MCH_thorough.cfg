CONSTANTS
  Variant = "fixed"
  MaxLabels = 3
  MaxList = 1
  WithLong = FALSE
INIT Init
NEXT Next
INVARIANT ImplMeetsContract
INVARIANT PortAside
INVARIANT NoLookAlike
INVARIANT Monotone
INVARIANT MalformedOut
INVARIANT EmptyListTrustsNothing
