CONSTANTS
  Variant = "mut_memohash"
  CookieSet = {"valid", "validB", "expired", "wronghash", "malformed", "absent"}
  PinSet = {"right", "B", "wrong"}
  HostCs = {"D", "O", "N", "E"}
  ConfigOn = TRUE
  ExportCnts = {}
INIT Init
NEXT Next
VIEW View
CONSTRAINT ExportBound
INVARIANT EvalGate
