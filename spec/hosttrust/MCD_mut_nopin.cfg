CONSTANTS
  Variant = "mut_nopin"
  CookieSet = {"valid", "expired", "wronghash", "malformed", "absent"}
  PinSet = {"right", "wrong"}
  HostCs = {"D", "N", "E"}
  ConfigOn = FALSE
  ExportCnts = {}
INIT Init
NEXT Next
VIEW View
INVARIANT ContractHolds
INVARIANT LockoutSticks
INVARIANT CounterTracks
INVARIANT TypeOK
