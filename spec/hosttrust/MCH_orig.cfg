CONSTANTS
  Variant = "orig"
  MaxLabels = 2
  MaxList = 2
  WithLong = TRUE
INIT Init
NEXT NoNext
INVARIANT ImplMeetsContract
INVARIANT PortAside
INVARIANT NoLookAlike
INVARIANT Monotone
INVARIANT MalformedOut
