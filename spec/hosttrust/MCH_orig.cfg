CONSTANTS
  Variant = "orig"
  MaxLabels = 2
  MaxList = 1
  WithLong = TRUE
INIT Init
NEXT Next
INVARIANT ImplMeetsContract
INVARIANT PortAside
INVARIANT NoLookAlike
INVARIANT Monotone
INVARIANT MalformedOut
INVARIANT EmptyListTrustsNothing
