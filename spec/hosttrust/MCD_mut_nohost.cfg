CONSTANTS
  Variant = "mut_nohost"
  ExportCnts = {}
INIT Init
NEXT Next
VIEW View
INVARIANT ContractHolds
INVARIANT LockoutSticks
INVARIANT CounterTracks
INVARIANT TypeOK
