----------------------------- MODULE DebuggerGate -----------------------------
(* C20, second half: the gates of the interactive debugger (DebuggedApplication).           *)
(*                                                                                          *)
(* cfg  = [evalex, pin_on : BOOLEAN, pin : "A" | "B", plog : BOOLEAN (pin_logging)]                *)
(* old:   [evalex, pin_on : BOOLEAN]                                                        *)
(* q    = [cmd    : "eval" | "console" | "pinauth" | "printpin" | "resource" | "none",     *)
(*         secret : "right" | "wrong" | "absent",                                           *)
(*         hv     : "T" | "U" | "E"    (Host trusted / untrusted / either verdict allowed), *)
(*         cookie : "valid" | "expired" | "wronghash" | "malformed" | "absent",             *)
(*         frame  : "known" | "console" | "unknown",                                        *)
(*         pin    : "right" | "wrong"]                                                      *)
(* o    = what the outside sees:                                                             *)
(*        [eval_ran, console, cookie_set, pin_logged, exhausted, app_called : BOOLEAN,      *)
(*         auth : "true" | "false" | "none" (no pinauth JSON), status : Nat]                *)
(*                                                                                          *)
(* Contract state: fails = number of failed PIN attempts since start or the last success    *)
(* (an attempt = a pinauth request that reached the PIN check without an already valid      *)
(* cookie; it failed iff the answer says auth = false).  Locked == fails > 10, for ever.    *)
EXTENDS Naturals

Cmds    == {"eval", "console", "pinauth", "printpin", "resource", "none"}
Secrets == {"right", "wrong", "absent"}
HVs     == {"T", "U", "E"}
\* "valid" / "expired" carry the hash of PIN A (the PIN the process starts with), "validB" that of PIN B
Cookies == {"valid", "validB", "expired", "wronghash", "malformed", "absent"}
Frames  == {"known", "console", "unknown"}
Pins    == {"right", "B", "wrong"}        \* entered PIN: "right" = PIN A, "B" = PIN B
Requests == [cmd : Cmds, secret : Secrets, hv : HVs, cookie : Cookies, frame : Frames, pin : Pins]

LockAfter == 10
Locked(fails) == fails > LockAfter

\* The configuration can change on the live application (public attributes pin / evalex / trusted_hosts):
\* cfg = [evalex, pin_on, pin], pin \in {"A", "B"} = the PIN currently set (pin_on = FALSE: app.pin = None).
\* A cookie opens the gate only if it is unexpired and was issued for the PIN that is set NOW.
CookieOK(cfg, q) == \/ ~cfg.pin_on
                    \/ q.cookie = "valid" /\ cfg.pin = "A"
                    \/ q.cookie = "validB" /\ cfg.pin = "B"
PinRight(cfg, q) == (q.pin = "right" /\ cfg.pin = "A") \/ (q.pin = "B" /\ cfg.pin = "B")
\* the cookie carries the hash of another PIN than `p`
HashOther(p, q) == \/ q.cookie = "wronghash"
                   \/ q.cookie \in {"valid", "expired"} /\ p # "A"
                   \/ q.cookie = "validB" /\ p # "B"
MayTrust(q)  == q.hv \in {"T", "E"}
MustTrust(q) == q.hv = "T"
FrameKnown(q) == q.frame \in {"known", "console"}

EvalAll(cfg, q, trust) == /\ cfg.evalex /\ q.cmd = "eval" /\ q.secret = "right"
                          /\ FrameKnown(q) /\ CookieOK(cfg, q) /\ trust
PinReach(q, trust) == q.cmd = "pinauth" /\ q.secret = "right" /\ trust

(* ---- the contract: first failing clause, or "ok" ------------------------------------------ *)
\* Safety: the conjunctions the property states.  Only these can become a VIOLATION of the code.
Safety(cfg, fails, q, o) ==
  IF o.eval_ran /\ ~EvalAll(cfg, q, MayTrust(q)) THEN "EvalOnlyIfAll"
  ELSE IF o.console /\ ~(cfg.evalex /\ q.cmd = "console" /\ MayTrust(q)) THEN "ConsoleOnlyTrustedHost"
  ELSE IF (o.auth # "none" \/ o.cookie_set \/ o.exhausted) /\ ~PinReach(q, MayTrust(q)) THEN "PinOnlyTrustedHost"
  ELSE IF o.pin_logged /\ ~(q.cmd = "printpin" /\ q.secret = "right" /\ MayTrust(q)) THEN "PinOnlyTrustedHost"
  \* "answer only trusted Hosts": to an untrusted Host the debugger's own console / PIN endpoints give no
  \* successful answer whatever the other options are (they refuse, 400-class, or leave the request to the application)
  ELSE IF q.hv = "U" /\ ~o.app_called /\ o.status < 400 /\ cfg.evalex /\ q.cmd = "console" THEN "ConsoleOnlyTrustedHost"
  ELSE IF q.hv = "U" /\ ~o.app_called /\ o.status < 400 /\ q.cmd \in {"pinauth", "printpin"} /\ q.secret = "right" THEN "PinOnlyTrustedHost"
  ELSE IF o.auth = "true" /\ Locked(fails) /\ ~CookieOK(cfg, q) THEN "LockoutSticks"
  ELSE IF o.auth = "true" /\ ~CookieOK(cfg, q) /\ ~PinRight(cfg, q) THEN "AuthOnlyWithPin"
  ELSE IF o.cookie_set /\ o.auth # "true" THEN "CookieOnlyIfAuth"
  ELSE "ok"

\* Usability: the documented positive behaviour of the PIN flow (the debugger stays usable for its
\* owner, and is not reported locked before the documented threshold).  The property does not state
\* it - a stricter debugger keeps the property true - so on recorded executions a mismatch is model
\* drift, never a verdict; the implementation-shaped MODEL is still required to satisfy it.
Usability(cfg, fails, q, o) ==
  IF cfg.pin_on /\ o.exhausted /\ ~Locked(fails) THEN "ExhaustedOnlyWhenLocked"
  ELSE IF cfg.pin_on /\ EvalAll(cfg, q, MustTrust(q)) /\ ~o.eval_ran THEN "EvalWhenAll"
  ELSE IF cfg.evalex /\ q.cmd = "console" /\ MustTrust(q) /\ ~o.console THEN "ConsoleWhenTrusted"
  ELSE IF /\ cfg.pin_on /\ PinReach(q, MustTrust(q))
          /\ (CookieOK(cfg, q) \/ (~Locked(fails) /\ PinRight(cfg, q) /\ ~HashOther(cfg.pin, q)))
          /\ o.auth # "true" THEN "AuthWhenEntitled"
  ELSE "ok"

\* what the model must satisfy: both
Clause(cfg, fails, q, o) == LET s == Safety(cfg, fails, q, o) IN
                            IF s # "ok" THEN s ELSE Usability(cfg, fails, q, o)

\* contract state after the request, from what was observed
ContractNext(cfg, fails, q, o) ==
  IF o.auth = "none" \/ q.cmd # "pinauth" THEN fails         \* the PIN check was not reached
  ELSE IF CookieOK(cfg, q) THEN fails                         \* already authenticated: not an attempt
  ELSE IF Locked(fails) THEN fails                            \* absorbing
  ELSE IF o.auth = "true" THEN 0
  ELSE fails + 1

(* ---- the implementation as written (DebuggedApplication.__call__ and friends) ------------- *)
Nothing == [eval_ran |-> FALSE, console |-> FALSE, cookie_set |-> FALSE, pin_logged |-> FALSE,
            exhausted |-> FALSE, app_called |-> FALSE, auth |-> "none", status |-> 200]
ToApp   == [Nothing EXCEPT !.app_called = TRUE]
Refused == [Nothing EXCEPT !.status = 400]

\* check_pin_trust: "true" | "false" | "none" (hash mismatch)
\* (the hash is compared before the expiry).  Variant "mut_memohash": the hash of the PIN is memoised
\* on first use and the pin setter does not invalidate it (deliberately broken).
PinTrust(variant, cfg, q) ==
  LET hp == IF variant = "mut_memohash" THEN "A" ELSE cfg.pin IN
  IF ~cfg.pin_on THEN "true"
  ELSE IF q.cookie \in {"absent", "malformed"} THEN "false"
  ELSE IF HashOther(hp, q) THEN "none"
  ELSE IF q.cookie = "expired" THEN "false" ELSE "true"

\* _fail_pin_auth: the counter is an unsigned byte (multiprocessing.Value("B"))
Bump(variant, cnt) == IF variant = "orig" THEN (cnt + 1) % 256
                      ELSE IF cnt >= 255 THEN 255 ELSE cnt + 1

ImplPinAuth(variant, cfg, cnt, q, trusted) ==
  IF ~trusted THEN [o |-> Refused, cnt |-> cnt]
  ELSE LET tr == PinTrust(variant, cfg, q) IN
    IF tr = "none" THEN [o |-> [Nothing EXCEPT !.auth = "false"], cnt |-> Bump(variant, cnt)]
    ELSE IF tr = "true" THEN [o |-> [Nothing EXCEPT !.auth = "true", !.cookie_set = TRUE], cnt |-> cnt]
    ELSE IF cnt > 10 THEN [o |-> [Nothing EXCEPT !.auth = "false", !.exhausted = TRUE], cnt |-> cnt]
    ELSE IF PinRight(cfg, q) THEN [o |-> [Nothing EXCEPT !.auth = "true", !.cookie_set = TRUE], cnt |-> 0]
    ELSE [o |-> [Nothing EXCEPT !.auth = "false"], cnt |-> Bump(variant, cnt)]

\* variant: "fixed" | "orig" | deliberately broken variants used to show the invariants bite
ImplStep(variant, cfg, cnt, q, trusted) ==
  LET hostok == trusted \/ variant = "mut_nohost"
      secok  == q.secret = "right" \/ variant = "mut_nosecret" IN
  IF q.cmd = "none" THEN [o |-> ToApp, cnt |-> cnt]
  ELSE IF q.cmd = "console" THEN
       (IF ~cfg.evalex THEN [o |-> ToApp, cnt |-> cnt]
        ELSE IF hostok THEN [o |-> [Nothing EXCEPT !.console = TRUE], cnt |-> cnt]
        ELSE [o |-> Refused, cnt |-> cnt])
  ELSE IF q.cmd = "resource" THEN [o |-> Nothing, cnt |-> cnt]
  ELSE IF q.cmd = "pinauth" /\ secok THEN ImplPinAuth(variant, cfg, cnt, q, hostok)
  ELSE IF q.cmd = "printpin" /\ secok THEN
       (IF hostok THEN [o |-> [Nothing EXCEPT !.pin_logged = (cfg.pin_on /\ cfg.plog)], cnt |-> cnt]
        ELSE [o |-> Refused, cnt |-> cnt])
  ELSE IF /\ q.cmd = "eval" /\ cfg.evalex /\ FrameKnown(q) /\ secok
          /\ (PinTrust(variant, cfg, q) = "true" \/ variant = "mut_nopin") THEN
       (IF hostok THEN [o |-> [Nothing EXCEPT !.eval_ran = TRUE], cnt |-> cnt]
        ELSE [o |-> Refused, cnt |-> cnt])
  ELSE [o |-> ToApp, cnt |-> cnt]
=============================================================================
