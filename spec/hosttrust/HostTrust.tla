------------------------------ MODULE HostTrust ------------------------------
(* C20, first half: which Host values a trusted-host list admits.                          *)
(*                                                                                          *)
(* Contract (from the property text and the docstring of host_is_trusted):                 *)
(*   port aside, a host is accepted only if it equals a listed name or is a true subdomain *)
(*   of a dot-prefixed entry (label-wise: never a look-alike string suffix, never another  *)
(*   address literal); a malformed host (empty / over-long label, label IDNA rejects, a    *)
(*   broken bracket literal, an empty name) is never accepted, and the only failure a      *)
(*   caller may see is the 400-class SecurityError.                                        *)
(*                                                                                          *)
(* Text is a sequence of code points.  IDNA ToASCII of a non-ASCII label is an              *)
(* uninterpreted function: the recorder supplies the table `tab` (label -> ASCII form or   *)
(* error) computed with the codec the code uses; ASCII labels are handled here.            *)
(*                                                                                          *)
(* Verdicts(tab, h, list) is the SET of acceptable answers:                                 *)
(*   {TRUE}        the host is, code point for code point, a listed name / a label-wise    *)
(*                 subdomain (or the bare domain) of a dot-prefixed entry, port aside       *)
(*   {TRUE,FALSE}  it is only so after case folding / IDNA / dropping a trailing dot / with *)
(*                 an odd port text, or the list contains a malformed entry, or the whole   *)
(*                 text is identical to an entry (the documentation leaves these open)      *)
(*   {FALSE}       everything else.                                                         *)
EXTENDS Bytes, FiniteSets

COLON == 58
DOT   == 46
LBR   == 91
RBR   == 93

IsUpper(c)   == c >= 65 /\ c <= 90
IsDigit(c)   == c >= 48 /\ c <= 57
LowerC(c)    == IF IsUpper(c) THEN c + 32 ELSE c
LowerS(s)    == [i \in 1..Len(s) |-> LowerC(s[i])]
IsAscii(s)   == \A i \in 1..Len(s) : s[i] < 128
AllDigits(s) == \A i \in 1..Len(s) : IsDigit(s[i])
CountOf(s, c) == Len(SelectSeq(s, LAMBDA x : x = c))
\* the label separators of IDNA (RFC 3490 section 3.1)
IsDot(c)     == c = DOT \/ c = 12290 \/ c = 65294 \/ c = 65377

RECURSIVE SplitDots(_, _)
SplitDots(s, cur) == IF s = <<>> THEN <<cur>>
                     ELSE IF IsDot(Head(s)) THEN <<cur>> \o SplitDots(Tail(s), <<>>)
                     ELSE SplitDots(Tail(s), Append(cur, Head(s)))
Labels(s) == SplitDots(s, <<>>)

RECURSIVE JoinDot(_)
JoinDot(ls) == IF ls = <<>> THEN <<>> ELSE IF Len(ls) = 1 THEN ls[1] ELSE ls[1] \o <<DOT>> \o JoinDot(Tail(ls))

(* ---- "port aside": host = name [":" port] | "[" literal "]" [":" port] ------------------- *)
BadSyntax == [ok |-> FALSE, lit |-> FALSE, name |-> <<>>, hasport |-> FALSE, port |-> <<>>]

Parse(h) ==
  IF h = <<>> THEN BadSyntax
  ELSE IF h[1] = LBR THEN
    LET k == FindFrom(h, <<RBR>>, 1) IN
    IF k = 0 THEN BadSyntax
    ELSE LET rest == Drop(h, k) IN
         IF rest = <<>> THEN [ok |-> TRUE, lit |-> TRUE, name |-> Take(h, k), hasport |-> FALSE, port |-> <<>>]
         ELSE IF rest[1] = COLON THEN [ok |-> TRUE, lit |-> TRUE, name |-> Take(h, k), hasport |-> TRUE, port |-> Drop(rest, 1)]
         ELSE BadSyntax
  ELSE LET n == CountOf(h, COLON) IN
    IF n = 0 THEN [ok |-> TRUE, lit |-> FALSE, name |-> h, hasport |-> FALSE, port |-> <<>>]
    ELSE IF n = 1 THEN LET p == FindFrom(h, <<COLON>>, 1) IN
         [ok |-> TRUE, lit |-> FALSE, name |-> Take(h, p - 1), hasport |-> TRUE, port |-> Drop(h, p)]
    ELSE BadSyntax          \* an unbracketed address literal or garbage

PortPlain(p) == ~p.hasport \/ (Len(p.port) >= 1 /\ Len(p.port) <= 5 /\ AllDigits(p.port))

(* ---- labels, canonical (case-folded, IDNA) form ------------------------------------------ *)
Lookup(tab, lab) == LET S == {i \in 1..Len(tab) : tab[i].l = lab} IN
                    IF S = {} THEN [ok |-> FALSE, a |-> <<>>]
                    ELSE LET i == CHOOSE j \in S : TRUE IN [ok |-> tab[i].ok, a |-> LowerS(tab[i].a)]

Canon(tab, lab) == IF IsAscii(lab) THEN [ok |-> Len(lab) >= 1 /\ Len(lab) <= 63, a |-> LowerS(lab)]
                   ELSE Lookup(tab, lab)

\* p: a successful Parse.  raw: labels as written; can: labels after folding; fq: trailing dot
NameInfo(tab, p) ==
  IF p.lit THEN [ok |-> IsAscii(p.name) /\ Len(p.name) >= 3, raw |-> <<p.name>>, can |-> <<LowerS(p.name)>>,
                 plain |-> Len(p.name) <= 63 /\ \A i \in 1..Len(p.name) : ~IsDot(p.name[i])]
  ELSE LET ls0 == Labels(p.name)
           fq  == Len(ls0) >= 2 /\ ls0[Len(ls0)] = <<>>
           ls  == IF fq THEN Take(ls0, Len(ls0) - 1) ELSE ls0
           cs  == [i \in 1..Len(ls) |-> Canon(tab, ls[i])]
           okk == \A i \in 1..Len(ls) : cs[i].ok
       IN [ok |-> okk, raw |-> ls,
           \* a nameprep result may itself contain dots: split again
           can |-> IF okk THEN Labels(JoinDot([i \in 1..Len(ls) |-> cs[i].a])) ELSE <<>>,
           plain |-> ~fq /\ Len(p.name) <= 253 /\ \A i \in 1..Len(p.name) : (IsDot(p.name[i]) => p.name[i] = DOT)]

\* everything the comparison needs to know about one host text (port aside)
NoInfo == [ok |-> FALSE, lit |-> FALSE, raw |-> <<>>, can |-> <<>>, plain |-> FALSE]
HostInfo(tab, h) == LET p == Parse(h) IN
                    IF ~p.ok THEN NoInfo
                    ELSE LET n == NameInfo(tab, p) IN
                         [ok |-> n.ok, lit |-> p.lit, raw |-> n.raw, can |-> n.can, plain |-> n.plain /\ PortPlain(p)]

HostOK(tab, h) == HostInfo(tab, h).ok
Malformed(tab, h) == ~HostOK(tab, h)

(* ---- entries ------------------------------------------------------------------------------ *)
EntrySub(e)  == e # <<>> /\ e[1] = DOT
EntryBody(e) == IF EntrySub(e) THEN Drop(e, 1) ELSE e
EntryOK(tab, e) == HostOK(tab, EntryBody(e))

IsSuffixSeq(a, b) == Len(a) < Len(b) /\ Drop(b, Len(b) - Len(a)) = a     \* proper suffix, element-wise

LabelMatch(hl, el, sub, hlit, elit) ==
  \/ hl = el /\ hlit = elit
  \/ sub /\ ~hlit /\ ~elit /\ IsSuffixSeq(el, hl)

NameEmpty(x) == x = <<>> \/ (LET p == Parse(x) IN p.ok /\ p.name = <<>>)

\* how one entry relates to the host (hi = HostInfo of the host text h):
\*  "strong"  the host is the entry / a label-wise subdomain of the dot-prefixed entry as written
\*  "loose"   only after case folding / IDNA / trailing dot / odd port text, or the texts are identical
\*  "bad" / "badsame"  the entry itself is malformed (and identical to the host text)
EntryClass(tab, h, hi, e) ==
  LET body == EntryBody(e)
      ei   == HostInfo(tab, body)
      sub  == EntrySub(e)
      \* the same text, or no name at all on both sides (":80" against the entry ""): a list like
      \* that is a configuration error, nothing is claimed for it
      same == h # <<>> /\ (h = e \/ h = body \/ (NameEmpty(h) /\ NameEmpty(body)))
  IN IF ~ei.ok THEN (IF same THEN "badsame" ELSE "bad")
     ELSE IF hi.ok /\ LabelMatch(hi.can, ei.can, sub, hi.lit, ei.lit) THEN
          (IF hi.plain /\ ei.plain /\ LabelMatch(hi.raw, ei.raw, sub, hi.lit, ei.lit) THEN "strong" ELSE "loose")
     ELSE IF same THEN "loose" ELSE "none"

RECURSIVE FoldEntries(_, _, _, _, _)
FoldEntries(tab, h, hi, list, i) ==
  IF i > Len(list) THEN [strong |-> FALSE, loose |-> FALSE, bad |-> FALSE]
  ELSE LET c == EntryClass(tab, h, hi, list[i])
           r == FoldEntries(tab, h, hi, list, i + 1)
       IN [strong |-> r.strong \/ c = "strong",
           loose  |-> r.loose \/ c \in {"strong", "loose", "badsame"},
           bad    |-> r.bad \/ c \in {"bad", "badsame"}]

Verdicts(tab, h, list) ==
  LET f == FoldEntries(tab, h, HostInfo(tab, h), list, 1)
  IN IF f.strong /\ ~f.bad THEN {TRUE}
     ELSE IF f.loose THEN {TRUE, FALSE}
     ELSE {FALSE}

\* clause names for a boolean answer b
BoolClause(tab, h, list, b) ==
  IF b \in Verdicts(tab, h, list) THEN "ok"
  ELSE IF b /\ Malformed(tab, h) THEN "MalformedNeverTrusted"
  ELSE IF b THEN "TrustedOnlyIfListed"
  ELSE "ListedIsTrusted"
=============================================================================
