CONSTANTS
  Variant = "ignored"
  MaxHostLen = 2
  MaxPortLen = 1
  MaxOtherLen = 1
INIT Init
NEXT Next
INVARIANT ExtraLeftIrrelevant
INVARIANT ExtraLeftSameVerdict
INVARIANT UntouchedWhenUnconfigured
INVARIANT SelectedHostDecides
INVARIANT LiteralIntact
INVARIANT QuoteExample
