CONSTANTS
  Variant = "orig"
  ExportCnts = {}
INIT Init
NEXT Next
VIEW View
INVARIANT LockoutSticks
INVARIANT ContractHolds
INVARIANT TypeOK
