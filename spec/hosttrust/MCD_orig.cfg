CONSTANTS
  Variant = "orig"
  CookieSet = {"valid", "expired", "wronghash", "malformed", "absent"}
  PinSet = {"right", "wrong"}
  HostCs = {"D", "N", "E"}
  ConfigOn = FALSE
  ExportCnts = {}
INIT Init
NEXT Next
VIEW View
INVARIANT LockoutSticks
INVARIANT ContractHolds
INVARIANT TypeOK
