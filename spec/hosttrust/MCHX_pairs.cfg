CONSTANTS
  Variant = "fixed"
  MaxLabels = 2
  MaxList = 1
  WithLong = TRUE
INIT Init
NEXT Next
INVARIANT Export
