---------------------------- MODULE ProxyFixTrace ----------------------------
(* Trace judge for the ProxyFix / server-fallback part of C20.  One line = one request:      *)
(*  pfix : [t, i, op, cfg, env, hd,            the inputs (see ProxyFix.tla)                 *)
(*          out, orig,                         environ after the real middleware, its orig   *)
(*          trusted, tab,                      trusted-host list, IDNA table                 *)
(*          r, rurl, rroot,                    Request(environ_after, trusted).host /        *)
(*                                             .host_url / .root_url  [kind, v, exc, code]   *)
(*          has_twin, extras, r2,                     .host when the client had put extra values in *)
(*                                             front of every X-Forwarded-* list             *)
(*          route, rremote,                    .access_route, .remote_addr                   *)
(*          has_exp, exp]                      the table row exported from MCProxyFix        *)
(* Verdicts (reject records) only for what C20 states: an unlisted / malformed host is       *)
(* never accepted, its only failure is the 400 SecurityError, and nothing the client adds    *)
(* in front of the proxies' values turns a rejection into acceptance - each under every      *)
(* reading of empty list elements the documentation allows (counted / ignored).  Everything else *)
(* (which value lands in which environ key, URL texts, access_route, a listed host being     *)
(* rejected) is reported as drift.                                                           *)
EXTENDS ProxyFix, TLC, Json, IOUtils

Lines == ndJsonDeserialize(IOEnv.TRACE_FILE)

VARIABLES l
vars == <<l>>

Acc(r) == r.kind = "value"
Sec(r) == r.kind = "exc" /\ r.exc = "SecurityError" /\ r.code = 400

M(ln) == Out("right", ln.cfg, ln.env, ln.hd)
Modelled(m) == m.hostp \/ PortModelled(m.sport)

MI(ln) == Out("ignored", ln.cfg, ln.env, ln.hd)      \* the other documented reading of empty list elements

\* The twin run puts `extras` (anything a client can send, quotes and backslashes included) in front of
\* every non-empty X-Forwarded-* list.  "What the client adds never turns a rejection into acceptance"
\* is claimed when those values lie beyond the configured count under EVERY reading of empty elements,
\* i.e. the non-empty values the proxies wrote are all there.
CountOfH(ln, n) == IF n = "host" THEN ln.cfg.x_host ELSE ln.cfg.x_port
ProxiesComplete(ln) == \A n \in {"host", "port"} :
                         LET h == ln.hd[n] IN ~h.p \/ h.text = <<>> \/ Len(ValuesR("ignored", h.text)) >= CountOfH(ln, n)
TwinClaimed(ln) == ln.has_twin /\ ProxiesComplete(ln)

\* A verdict must hold under every reading the documentation allows: the set of acceptable answers is
\* the union over the readings (a disagreement between code and table on empty elements alone is drift).
Security(ln) ==
  LET V == AllReadingsVerdicts(ln.tab, ln.cfg, ln.env, ln.hd, ln.trusted)
  IN IF ~(Modelled(M(ln)) /\ Modelled(MI(ln))) THEN "ok"
     ELSE IF Acc(ln.r) /\ TRUE \notin V THEN "ProxyAcceptsUnlisted"
     ELSE IF (Acc(ln.rurl) \/ Acc(ln.rroot)) /\ (TRUE \notin V \/ ~Acc(ln.r)) THEN "ProxyUrlAcceptsUnlisted"
     ELSE IF V = {FALSE} /\ ~(Sec(ln.r) /\ Sec(ln.rurl) /\ Sec(ln.rroot)) THEN "ProxyNoOtherFailure"
     ELSE IF TwinClaimed(ln) /\ ~Acc(ln.r) /\ Acc(ln.r2) THEN "ProxyClientValueGrantsTrust"
     ELSE "ok"

Scheme3 == <<58, 47, 47>>
Drift(ln) ==
  LET m == M(ln)
      V == EnvVerdicts(ln.tab, m, ln.trusted)
  IN IF ln.out # m /\ ln.out = MI(ln) THEN "ProxyEmptyElementsIgnored"
     ELSE IF ln.out # m THEN "ProxySelection"
     ELSE IF ln.orig # ln.env THEN "ProxyOrig"
     ELSE IF ln.has_exp /\ ln.exp # ln.out THEN "ProxyExport"
     ELSE IF ~Modelled(m) THEN "ProxyUnmodelledPort"
     ELSE IF V = {TRUE} /\ ~Acc(ln.r) THEN "ProxyListedRejected"
     ELSE IF Acc(ln.r) /\ ln.r.v # RawHost(m) /\ ln.r.v # JudgedHost(m) THEN "ProxyHostValue"
     ELSE IF Acc(ln.r) /\ ~(Acc(ln.rurl) /\ Acc(ln.rroot)) THEN "ProxyUrlFailure"
     ELSE IF Acc(ln.r) /\ Acc(ln.rurl) /\ IsAscii(ln.r.v) /\ ln.tab = <<>> /\ ln.rurl.v # LowerS(m.scheme) \o Scheme3 \o ln.r.v \o <<47>> THEN "ProxyHostUrl"
     ELSE IF ln.rremote # m.remote THEN "ProxyRemoteAddr"
     ELSE IF ln.route # (IF ln.hd.for.p THEN QuotedListValues(ln.hd.for.text) ELSE <<m.remote>>) THEN "ProxyAccessRoute"
     ELSE IF TwinClaimed(ln) /\ Acc(ln.r) # Acc(ln.r2) THEN "ProxyTwinDiffers"
     ELSE "ok"

Init == l = 1

Next ==
  /\ l <= Len(Lines)
  /\ l' = l + 1
  /\ LET ln == Lines[l] IN
     IF ln.op # "pfix" THEN PrintT(ToJson([reject |-> 1, t |-> ln.t, i |-> 0, clause |-> "ProxyMalformedTraceLine"]))
     ELSE /\ LET v == Security(ln) IN
             IF v = "ok" THEN TRUE ELSE PrintT(ToJson([reject |-> 1, t |-> ln.t, i |-> ln.i, clause |-> v]))
          /\ LET d == Drift(ln) IN
             IF d = "ok" THEN TRUE ELSE PrintT(ToJson([drift |-> 1, t |-> ln.t, i |-> ln.i, what |-> d]))

Done == PrintT(ToJson([judged |-> Len(Lines)])) /\ TLCGet("generated") >= 0
=============================================================================
