----------------------------- MODULE MCHostTrust -----------------------------
(* Bounded model for the host half of C20.                                                  *)
(*  - a generator of (host, trusted list) pairs from a label grammar (labels that are       *)
(*    look-alikes of each other, letter-case variants, empty and over-long labels, ports,   *)
(*    bracketed and bare address literals, broken brackets);                                *)
(*  - Impl: host_is_trusted transcribed string operation by string operation (Variant      *)
(*    "orig" = the pinned tree, "fixed" = with fixes F14/F15), ASCII only;                  *)
(*  - TLC checks Impl against the contract HostTrust!Verdicts for every pair, plus laws of  *)
(*    the contract itself (PortAside, NoLookAlike, Monotone).                               *)
(*  - the export configuration prints the pairs for replay on the real functions.           *)
EXTENDS HostTrust, TLC, Json

CONSTANTS Variant, MaxLabels, MaxList, WithLong

lo     == <<108, 111>>                       \* "lo"   (stands for localhost)
evillo == <<101, 118, 105, 108, 108, 111>>   \* "evillo": string-suffix "lo", other label
co     == <<99, 111>>                        \* "co"
LOup   == <<76, 79>>                         \* "LO"
one    == <<49>>                             \* "1"
long64 == [i \in 1..64 |-> 97]
LabelSet == {lo, evillo, co, LOup, one, <<>>} \cup (IF WithLong THEN {long64} ELSE {})

S(str) == str
P80   == <<58, 56, 48>>
Pnone == <<>>
Pempty == <<58>>
Podd  == <<58, 120, 49>>
Ports == {Pnone, P80, Pempty, Podd}

L1 == <<91, 58, 58, 49, 93>>      \* [::1]
L2 == <<91, 58, 58, 50, 93>>      \* [::2]
Lopen == <<91, 58, 58, 49>>       \* [::1
B1 == <<58, 58, 49>>              \* ::1
B2 == <<58, 58, 50>>              \* ::2
Ljunk == L1 \o <<120>>            \* [::1]x
Literals == {L1, L2, Lopen, B1, B2, Ljunk}

Names == {JoinDot(ls) : ls \in UNION {SeqsLen(LabelSet, k) : k \in 1..MaxLabels}}
Hosts == {n \o p : n \in Names \cup Literals, p \in Ports} \cup {<<>>}

Entries == {lo, <<DOT>> \o lo, co \o <<DOT>> \o lo, <<DOT>> \o co \o <<DOT>> \o lo, LOup, one,
            L1, B1, lo \o P80, L1 \o P80, lo \o <<DOT, DOT>> \o co, <<DOT>> \o L1}
\* including the configured but EMPTY list: it admits no host at all
Lists == UNION {SeqsLen(Entries, k) : k \in 0..MaxList}

VARIABLES host, list, phase
vars == <<host, list, phase>>

(* ---- host_is_trusted as written ---------------------------------------------------------- *)
PartitionColon(s) == LET p == FindFrom(s, <<COLON>>, 1) IN IF p = 0 THEN s ELSE Take(s, p - 1)

StripPort(s) ==
  IF Variant = "orig" THEN PartitionColon(s)
  ELSE IF s # <<>> /\ s[1] = LBR THEN
         LET k == FindFrom(s, <<RBR>>, 1) IN
         IF k # 0 /\ (k = Len(s) \/ s[k + 1] = COLON) THEN Take(s, k) ELSE s
  ELSE IF CountOf(s, COLON) = 1 THEN PartitionColon(s) ELSE s

\* str.encode("idna") on ASCII text: labels between dots must have 1..63 characters, one
\* trailing dot is allowed, the empty string encodes to itself
IdnaOK(s) == \/ s = <<>>
             \/ LET ls0 == Labels(s)
                    ls  == IF ls0[Len(ls0)] = <<>> THEN Take(ls0, Len(ls0) - 1) ELSE ls0
                IN ls # <<>> /\ \A i \in 1..Len(ls) : Len(ls[i]) >= 1 /\ Len(ls[i]) <= 63

EndsWith(s, suf) == Len(suf) <= Len(s) /\ Drop(s, Len(s) - Len(suf)) = suf

RECURSIVE ImplLoop(_, _, _)
ImplLoop(hn, l, i) ==
  IF i > Len(l) THEN "F"
  ELSE LET e   == l[i]
           sub == e # <<>> /\ e[1] = DOT
           ref == StripPort(IF sub THEN Drop(e, 1) ELSE e)
       IN IF ~IdnaOK(ref) THEN (IF Variant = "orig" THEN "UnicodeError" ELSE "F")
          ELSE IF ref = hn \/ (sub /\ EndsWith(hn, <<DOT>> \o ref)) THEN "T"
          ELSE ImplLoop(hn, l, i + 1)

Impl(h, l) ==
  IF h = <<>> THEN "F"
  ELSE LET hn == StripPort(h) IN
       IF ~IdnaOK(hn) THEN (IF Variant = "orig" THEN "UnicodeError" ELSE "F")
       ELSE ImplLoop(hn, l, 1)

NoTab == <<>>

(* ---- invariants ---------------------------------------------------------------------------- *)
ImplMeetsContract == phase = 1 => LET r == Impl(host, list) IN r \in {"T", "F"} /\ (r = "T") \in Verdicts(NoTab, host, list)

\* "port aside"
PortAside == LET p == Parse(host) IN
             (phase = 1 /\ HostOK(NoTab, host) /\ ~p.hasport) => Verdicts(NoTab, host, list) = Verdicts(NoTab, host \o P80, list)

\* independent, string-level reading of "never a look-alike suffix / another literal":
\* whenever TRUE is admitted some entry is, after case folding and port/trailing-dot removal,
\* the whole name or is preceded by a dot in it
NoDot(s) == IF s # <<>> /\ s[Len(s)] = DOT THEN Take(s, Len(s) - 1) ELSE s
NameOf(s) == LET p == Parse(s) IN IF p.ok THEN LowerS(NoDot(p.name)) ELSE LowerS(s)
NoLookAlike ==
  (phase = 1 /\ TRUE \in Verdicts(NoTab, host, list)) =>
    \E i \in 1..Len(list) :
      LET e == list[i] en == NameOf(EntryBody(e)) hn == NameOf(host) IN
      hn = en \/ (EntrySub(e) /\ EndsWith(hn, <<DOT>> \o en))

\* a longer list never withdraws trust that is required, a host outside every entry stays out
Monotone == (phase = 1 /\ Len(list) = 2) =>
  /\ (Verdicts(NoTab, host, <<list[1]>>) = {FALSE} /\ Verdicts(NoTab, host, <<list[2]>>) = {FALSE})
       => Verdicts(NoTab, host, list) = {FALSE}
  /\ TRUE \in Verdicts(NoTab, host, <<list[1]>>) => TRUE \in Verdicts(NoTab, host, list)

\* a configured empty list trusts nothing (None = "not configured" is not a list and not modelled here)
EmptyListTrustsNothing == (phase = 1 /\ list = <<>>) => (Verdicts(NoTab, host, list) = {FALSE} /\ Impl(host, list) = "F")

MalformedOut == (phase = 1 /\ Malformed(NoTab, host) /\ (\A i \in 1..Len(list) : host # list[i] /\ host # EntryBody(list[i])))
                  => Verdicts(NoTab, host, list) = {FALSE}

\* two levels so that TLC's workers share the enumeration: initial states = the lists
Init == phase = 0 /\ host = <<>> /\ list \in Lists
Next == phase = 0 /\ phase' = 1 /\ host' \in Hosts /\ UNCHANGED list

Export == phase = 1 => PrintT(ToJson([host |-> host, list |-> list,
                         v |-> [t |-> TRUE \in Verdicts(NoTab, host, list), f |-> FALSE \in Verdicts(NoTab, host, list)]]))
=============================================================================
