--------------------------- MODULE HostTrustTrace ---------------------------
(* Trace judge for C20.  Input: ndjson (TRACE_FILE), one TLC state per line.                 *)
(*  host : [t, i, op, api, vkind, host, present, srv, srvport, scheme, list, tab,            *)
(*          (vkind = "host" | "url": what a returned text is - the host, or a URL built from it) *)
(*          r : [kind : "bool" | "value" | "exc", b, v, exc, code]]                          *)
(*         one call of host_is_trusted / sansio get_host / wsgi get_host / Request.host      *)
(*  dcfg : [t, op, evalex, pin_on, pin, plog, trusted]      a fresh DebuggedApplication (pin "A") *)
(*  set  : [t, i, op, evalex, pin_on, pin, trusted]    its configuration after an assignment *)
(*         to the public attributes pin / evalex / trusted_hosts of the live application     *)
(*  req  : [t, i, op, cmd, secret, host, hpresent, tab, cookie, frame, pin,                  *)
(*          o : [eval_ran, console, cookie_set, pin_logged, exhausted, app_called, auth,     *)
(*               status],  crash, cnt, rtrust, has_exp, exp, exp_cnt]                        *)
(*         one request to that application, in order.  cnt (the private counter), rtrust     *)
(*         (check_host_trust) and exp (expectation exported from MCDebugger) are only used   *)
(*         for the model-drift report, never for a verdict.  Verdicts come from             *)
(*         DebuggerGate!Safety only; DebuggerGate!Usability mismatches are drift records.    *)
(* Verdicts are total: a rejected line prints a reject record and judging goes on.           *)
EXTENDS HostTrust, DebuggerGate, TLC, Json, IOUtils

Lines == ndJsonDeserialize(IOEnv.TRACE_FILE)

VARIABLES l, cfg, fails, mcnt
vars == <<l, cfg, fails, mcnt>>

EndsWithSeq(s, suf) == Len(suf) <= Len(s) /\ Drop(s, Len(s) - Len(suf)) = suf

(* ---- host lines ------------------------------------------------------------------------- *)
Effective(ln) ==
  IF ln.present THEN ln.host
  ELSE LET s == ln.srv
           w == IF s # <<>> /\ CountOf(s, COLON) > 0 /\ s[1] # LBR THEN <<LBR>> \o s \o <<RBR>> ELSE s
       IN IF ln.srvport = <<>> THEN w ELSE w \o <<COLON>> \o ln.srvport

StdPort(scheme) == IF scheme \in {"http", "ws"} THEN <<58, 56, 48>>
                   ELSE IF scheme \in {"https", "wss"} THEN <<58, 52, 52, 51>> ELSE <<>>
StripStd(h, scheme) == LET sp == StdPort(scheme) IN
                       IF sp # <<>> /\ EndsWithSeq(h, sp) THEN Take(h, Len(h) - Len(sp)) ELSE h

HostClause(ln) ==
  LET h  == Effective(ln)
      r  == ln.r
  IN IF ln.api = "host_is_trusted" THEN
          IF r.kind # "bool" THEN (IF Malformed(ln.tab, h) THEN "MalformedIsNotAnotherFailure" ELSE "NoOtherFailure")
          ELSE BoolClause(ln.tab, h, ln.list, r.b)
     ELSE \* get_host family: the standard port is dropped, then the host is validated
          LET hs == StripStd(h, ln.scheme)
              V1 == Verdicts(ln.tab, h, ln.list)
              V  == IF hs = h THEN V1 ELSE V1 \cup Verdicts(ln.tab, hs, ln.list) IN
          IF r.kind = "value" THEN
               IF TRUE \notin V THEN BoolClause(ln.tab, hs, ln.list, TRUE)
               ELSE IF ln.vkind = "url" \/ r.v = h \/ r.v = hs THEN "ok" ELSE "HostValue"
          ELSE IF r.kind = "exc" /\ r.exc = "SecurityError" /\ r.code = 400 THEN
               IF FALSE \notin V THEN "ListedIsTrusted" ELSE "ok"
          \* a URL-building entry point may fail for its own reasons once the host itself is acceptable
          ELSE IF ln.vkind = "url" /\ TRUE \in V THEN "ok"
          ELSE IF Malformed(ln.tab, hs) THEN "MalformedIsSecurityError" ELSE "NoOtherFailure"

(* ---- debugger lines ----------------------------------------------------------------------- *)
HV(ln, c) == IF ~ln.hpresent THEN "U"
             ELSE LET V == Verdicts(ln.tab, ln.host, c.trusted) IN
                  IF V = {TRUE} THEN "T" ELSE IF V = {FALSE} THEN "U" ELSE "E"

Q(ln, c) == [cmd |-> ln.cmd, secret |-> ln.secret, hv |-> HV(ln, c), cookie |-> ln.cookie,
             frame |-> ln.frame, pin |-> ln.pin]
C(c) == [evalex |-> c.evalex, pin_on |-> c.pin_on, pin |-> c.pin, plog |-> c.plog]

WellFormedReq(ln) == /\ ln.cmd \in Cmds /\ ln.secret \in Secrets /\ ln.cookie \in Cookies
                     /\ ln.frame \in Frames /\ ln.pin \in Pins
                     /\ ln.o.auth \in {"true", "false", "none"}

Init == l = 1 /\ cfg = [op |-> "none"] /\ fails = 0 /\ mcnt = 0

Reject(ln, v) == IF v = "ok" THEN TRUE
                 ELSE PrintT(ToJson([reject |-> 1, t |-> ln.t, i |-> ln.i, clause |-> v]))

Next ==
  /\ l <= Len(Lines)
  /\ l' = l + 1
  /\ LET ln == Lines[l] IN
     CASE ln.op = "host" ->
            /\ UNCHANGED <<cfg, fails, mcnt>>
            /\ Reject(ln, HostClause(ln))
       [] ln.op = "dcfg" ->
            /\ cfg' = ln /\ fails' = 0 /\ mcnt' = 0
       [] ln.op = "set" /\ cfg.op = "dcfg" ->      \* app.pin = .. / app.evalex = .. / app.trusted_hosts = ..
            /\ cfg' = [cfg EXCEPT !.evalex = ln.evalex, !.pin_on = ln.pin_on, !.pin = ln.pin, !.trusted = ln.trusted]
            /\ UNCHANGED <<fails, mcnt>>          \* the failure count and the lock-out survive a reconfiguration
       [] ln.op = "req" /\ cfg.op = "dcfg" ->
            IF ~WellFormedReq(ln) THEN UNCHANGED <<cfg, fails, mcnt>> /\ Reject(ln, "MalformedTraceLine")
            ELSE LET q == Q(ln, cfg)  c == C(cfg)
                     m == ImplStep("fixed", c, mcnt, q, ln.rtrust) IN
                 \* "rather than any other failure" is said of an unacceptable Host; a crash on a request from
                 \* an acceptable Host is no host-trust matter (drift)
                 /\ Reject(ln, IF ln.crash # "" THEN (IF q.hv = "U" THEN "NoOtherFailure" ELSE "ok") ELSE Safety(c, fails, q, ln.o))
                 /\ LET u == IF ln.crash # "" THEN (IF q.hv = "U" THEN "ok" ELSE "CrashOnAcceptableHost") ELSE Usability(c, fails, q, ln.o) IN
                    IF u = "ok" THEN TRUE
                    ELSE PrintT(ToJson([drift |-> 1, t |-> ln.t, i |-> ln.i, pin_on |-> cfg.pin_on, what |-> u]))
                 /\ fails' = ContractNext(c, fails, q, ln.o)
                 /\ mcnt' = ln.cnt
                 /\ cfg' = cfg
                 /\ IF m.o = ln.o /\ m.cnt = ln.cnt /\ (ln.has_exp => (ln.exp = ln.o /\ ln.exp_cnt = ln.cnt)) THEN TRUE
                    ELSE PrintT(ToJson([drift |-> 1, t |-> ln.t, i |-> ln.i, pin_on |-> cfg.pin_on,
                                        what |-> "DebuggerGate!ImplStep / exported expectation vs recorded response"]))
       [] OTHER -> UNCHANGED <<cfg, fails, mcnt>> /\ Reject([t |-> ln.t, i |-> 0], "MalformedTraceLine")

Done == PrintT(ToJson([judged |-> Len(Lines)])) /\ TLCGet("generated") >= 0
=============================================================================
