CONSTANTS
  Variant = "fixed"
  ExportCnts = {0, 1, 10, 11, 12}
INIT Init
NEXT Next
VIEW View
CONSTRAINT ExportBound
ACTION_CONSTRAINT Export
