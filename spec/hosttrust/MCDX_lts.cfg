CONSTANTS
  Variant = "fixed"
  CookieSet = {"valid", "expired", "wronghash", "malformed", "absent"}
  PinSet = {"right", "wrong"}
  HostCs = {"D", "N", "E"}
  ConfigOn = FALSE
  ExportCnts = {0, 1, 10, 11, 12}
INIT Init
NEXT Next
VIEW View
CONSTRAINT ExportBound
ACTION_CONSTRAINT Export
