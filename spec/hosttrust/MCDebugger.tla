----------------------------- MODULE MCDebugger -----------------------------
(* Bounded model of the debugger's gates: every request of the product (command x secret x  *)
(* host verdict x cookie x frame x entered PIN) from every reachable value of the failure   *)
(* counter, for the four (evalex, pin) configurations, i.e. every history of requests.      *)
(* With ConfigOn the configuration (PIN A / B / none, evalex, trusted-hosts list) changes between   *)
(* requests: every configuration history interleaved with every request history.              *)
(* The implementation-shaped step (DebuggerGate!ImplStep) is checked against the contract   *)
(* (DebuggerGate!Clause) on every transition; `fails` is the contract's own counter.        *)
EXTENDS DebuggerGate, TLC, Json

CONSTANTS Variant, ExportCnts,
          CookieSet, PinSet,      \* the cookie / entered-PIN classes of the request product
          HostCs,                 \* host classes: "D" trusted by the default list only, "O" by the other list only,
                                  \*               "N" by neither, "E" either verdict allowed
          ConfigOn                \* TRUE: the configuration actions SetPin / ClearPin / SetEvalex / SetTrustedHosts are enabled

Reqs == [cmd : Cmds, secret : Secrets, hc : HostCs, cookie : CookieSet, frame : Frames, pin : PinSet]

VARIABLES cfg, cnt, fails, bad, act
vars == <<cfg, cnt, fails, bad, act>>
View == <<cfg, cnt, fails, bad>>

\* cfg.tl: which trusted-hosts list is set ("def" | "oth")
Init == /\ cfg \in [evalex : BOOLEAN, pin_on : BOOLEAN, pin : {"A"}, tl : {"def"}, plog : {TRUE}]     \* pin_logging = False is exercised on the code side (trace judge) only
        /\ cnt = 0 /\ fails = 0 /\ bad = "ok"
        /\ act = [k |-> "init"]

Trusts(q) == IF q.hv = "T" THEN {TRUE} ELSE IF q.hv = "U" THEN {FALSE} ELSE BOOLEAN

HvOf(hc, tl) == CASE hc = "D" -> (IF tl = "def" THEN "T" ELSE "U")
                   [] hc = "O" -> (IF tl = "oth" THEN "T" ELSE "U")
                   [] hc = "E" -> "E"
                   [] OTHER -> "U"

Request == \E r \in Reqs :
          LET q == [cmd |-> r.cmd, secret |-> r.secret, hv |-> HvOf(r.hc, cfg.tl), cookie |-> r.cookie,
                    frame |-> r.frame, pin |-> r.pin] IN
          \E tr \in Trusts(q) :
          LET s == ImplStep(Variant, cfg, cnt, q, tr) IN
          /\ cnt' = s.cnt
          /\ fails' = ContractNext(cfg, fails, q, s.o)
          /\ bad' = Clause(cfg, fails, q, s.o)
          /\ act' = [k |-> "req", q |-> q, o |-> s.o]
          /\ UNCHANGED cfg

\* the public attributes of a live DebuggedApplication: app.pin = B / A, app.pin = None, app.evalex = b,
\* app.trusted_hosts = [...].  Neither the failure counter nor the lock-out is touched by them.
Configure == /\ ConfigOn
             /\ \/ \E p \in {"A", "B"} : cfg' = [cfg EXCEPT !.pin = p, !.pin_on = TRUE]     \* SetPin
                \/ cfg' = [cfg EXCEPT !.pin_on = FALSE]                                      \* ClearPin
                \/ \E b \in BOOLEAN : cfg' = [cfg EXCEPT !.evalex = b]                       \* SetEvalex
                \/ \E l \in {"def", "oth"} : cfg' = [cfg EXCEPT !.tl = l]                    \* SetTrustedHosts
             /\ cfg' # cfg
             /\ act' = [k |-> "config"]
             /\ UNCHANGED <<cnt, fails, bad>>

Next == Request \/ Configure

\* every clause of the contract on every transition
ContractHolds == bad = "ok"
\* the lock-out, stated on its own: in a locked state nothing but a valid cookie authenticates
LockoutSticks == bad # "LockoutSticks"
\* the eval gate, stated on its own
EvalGate == bad # "EvalOnlyIfAll"
\* the code's counter and the contract's agree on whether the debugger is locked
CounterTracks == (cnt > 10) = Locked(fails)
TypeOK == cnt \in 0..255 /\ fails \in 0..(LockAfter + 1)

\* the export only needs the neighbourhood of the lock-out threshold
ExportBound == cnt <= 13
Export == IF cnt \in ExportCnts /\ act'.k = "req" /\ act'.q.hv # "E"
          THEN PrintT(ToJson([cfg |-> cfg, cnt |-> cnt, fails |-> fails, q |-> act'.q, o |-> act'.o, cnt2 |-> cnt']))
          ELSE TRUE
=============================================================================
