----------------------------- MODULE MCDebugger -----------------------------
(* Bounded model of the debugger's gates: every request of the product (command x secret x  *)
(* host verdict x cookie x frame x entered PIN) from every reachable value of the failure   *)
(* counter, for the four (evalex, pin) configurations, i.e. every history of requests.      *)
(* The implementation-shaped step (DebuggerGate!ImplStep) is checked against the contract   *)
(* (DebuggerGate!Clause) on every transition; `fails` is the contract's own counter.        *)
EXTENDS DebuggerGate, TLC, Json

CONSTANTS Variant, ExportCnts

VARIABLES cfg, cnt, fails, bad, act
vars == <<cfg, cnt, fails, bad, act>>
View == <<cfg, cnt, fails, bad>>

Init == /\ cfg \in [evalex : BOOLEAN, pin_on : BOOLEAN]
        /\ cnt = 0 /\ fails = 0 /\ bad = "ok"
        /\ act = [q |-> "init"]

Trusts(q) == IF q.hv = "T" THEN {TRUE} ELSE IF q.hv = "U" THEN {FALSE} ELSE BOOLEAN

Next == \E q \in Requests : \E tr \in Trusts(q) :
          LET s == ImplStep(Variant, cfg, cnt, q, tr) IN
          /\ cnt' = s.cnt
          /\ fails' = ContractNext(cfg, fails, q, s.o)
          /\ bad' = Clause(cfg, fails, q, s.o)
          /\ act' = [q |-> q, o |-> s.o]
          /\ UNCHANGED cfg

\* every clause of the contract on every transition
ContractHolds == bad = "ok"
\* the lock-out, stated on its own: in a locked state nothing but a valid cookie authenticates
LockoutSticks == bad # "LockoutSticks"
\* the code's counter and the contract's agree on whether the debugger is locked
CounterTracks == (cnt > 10) = Locked(fails)
TypeOK == cnt \in 0..255 /\ fails \in 0..(LockAfter + 1)

\* the export only needs the neighbourhood of the lock-out threshold
ExportBound == cnt <= 13
Export == IF cnt \in ExportCnts /\ act'.q.hv # "E"
          THEN PrintT(ToJson([cfg |-> cfg, cnt |-> cnt, fails |-> fails, q |-> act'.q, o |-> act'.o, cnt2 |-> cnt']))
          ELSE TRUE
=============================================================================
