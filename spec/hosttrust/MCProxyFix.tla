----------------------------- MODULE MCProxyFix -----------------------------
(* Bounded model of the ProxyFix decision table composed with the trusted-host check.        *)
(* focus "hostport": x_host, x_port in 0..2, X-Forwarded-Host lists of length 0..3 (or no    *)
(* header) over names with / without ports and bracketed IPv6 literals with / without ports, *)
(* X-Forwarded-Port lists of length 0..MaxPortLen, three original Host forms.                *)
(* focus "others": For / Proto / Prefix with counts 0..2 and lists of length 0..3.           *)
(* TLC checks the laws of the table; the export configuration prints every case with the     *)
(* table's answer for replay on the real middleware.                                         *)
EXTENDS ProxyFix, TLC, Json

CONSTANTS Variant, MaxHostLen, MaxPortLen, MaxOtherLen

T(s) == s
acom  == <<97, 46, 99, 111>>                           \* a.co       (trusted below)
evil  == <<101, 46, 99, 111, 58, 56, 48, 56, 48>>      \* e.co:8080
lit   == <<91, 58, 58, 49, 93>>                        \* [::1]      (trusted below)
litp  == <<91, 58, 58, 49, 93, 58, 56, 52, 52, 51>>    \* [::1]:8443
HostVals == {acom, evil, lit, litp}
PortVals == {<<52, 52, 51>>, <<56, 52, 52, 51>>}       \* 443, 8443
ForVals  == {<<49, 46, 49>>, <<50, 46, 50>>}           \* 1.1, 2.2
ProtoVals == {<<104, 116, 116, 112, 115>>, <<104, 116, 116, 112>>}   \* https, http
PrefVals == {<<47, 97>>, <<47, 98>>}                   \* /a, /b
quoted == <<101, 118, 34, 105, 108>>                     \* ev"il : what a client may send in front
Trusted == <<acom, lit>>

RECURSIVE JoinComma(_)
JoinComma(vs) == IF vs = <<>> THEN <<>> ELSE IF Len(vs) = 1 THEN vs[1] ELSE vs[1] \o <<COMMA, 32>> \o JoinComma(Tail(vs))

Absent == [p |-> FALSE, text |-> <<>>]
Hdrs(vals, maxlen) == {Absent} \cup {[p |-> TRUE, text |-> JoinComma(vs)] : vs \in UNION {SeqsLen(vals, k) : k \in 0..maxlen}}

Env0 == [remote |-> <<57, 46, 57>>, scheme |-> <<104, 116, 116, 112>>, hostp |-> TRUE,
         host |-> <<105, 110, 58, 56, 48, 48, 48>>, sname |-> <<105, 110>>, sport |-> <<56, 48, 48, 48>>, script |-> <<>>]
Envs == {Env0, [Env0 EXCEPT !.hostp = FALSE, !.host = <<>>], [Env0 EXCEPT !.host = <<91, 58, 58, 50, 93>>]}

VARIABLES focus, cfg, env, hd
vars == <<focus, cfg, env, hd>>

NoCfg == [x_for |-> 0, x_proto |-> 0, x_host |-> 0, x_port |-> 0, x_prefix |-> 0]
NoHd  == [for |-> Absent, proto |-> Absent, host |-> Absent, port |-> Absent, prefix |-> Absent]

\* two levels (see MCHostTrust): the initial states fix focus, counts and the host header
Init == /\ env \in Envs
        /\ \/ /\ focus = "hostport"
              /\ \E a \in 0..2, b \in 0..2 : cfg = [NoCfg EXCEPT !.x_host = a, !.x_port = b]
              /\ \E h \in Hdrs(HostVals, MaxHostLen) : hd = [NoHd EXCEPT !.host = h]
           \/ /\ focus = "others"
              /\ \E a \in 0..2, b \in 0..2, c \in 0..2 : cfg = [NoCfg EXCEPT !.x_for = a, !.x_proto = b, !.x_prefix = c]
              /\ \E h \in Hdrs(ForVals, MaxOtherLen) : hd = [NoHd EXCEPT !.for = h]

Next == \/ /\ focus = "hostport" /\ focus' = "hostport2"
           /\ \E h \in Hdrs(PortVals, MaxPortLen) : hd' = [hd EXCEPT !.port = h]
           /\ UNCHANGED <<cfg, env>>
        \/ /\ focus = "others" /\ focus' = "others2"
           /\ \E h \in Hdrs(ProtoVals, MaxOtherLen), g \in Hdrs(PrefVals, IF MaxOtherLen < 2 THEN MaxOtherLen ELSE 2) : hd' = [hd EXCEPT !.proto = h, !.prefix = g]
           /\ UNCHANGED <<cfg, env>>

\* the values of a header as the table reads them (no header / empty header: none)
HVals(h) == IF ~h.p \/ h.text = <<>> THEN <<>> ELSE Pieces(h.text)
Final == focus \in {"hostport2", "others2"}
O == Out(Variant, cfg, env, hd)

Prepend(h, v) == IF h.p /\ h.text # <<>> THEN [p |-> TRUE, text |-> v \o <<COMMA, 32>> \o h.text] ELSE h
Names == {"for", "proto", "host", "port", "prefix"}
CountOfHdr(n) == CASE n = "for" -> cfg.x_for [] n = "proto" -> cfg.x_proto [] n = "host" -> cfg.x_host
                   [] n = "port" -> cfg.x_port [] OTHER -> cfg.x_prefix

\* what the client put in front of the values the proxies wrote never matters
ExtraLeftIrrelevant ==
  Final => \A n \in Names :
     (Len(HVals(hd[n])) >= CountOfHdr(n) /\ hd[n].p /\ hd[n].text # <<>>) =>
        /\ Out(Variant, cfg, env, [hd EXCEPT ![n] = Prepend(hd[n], evil)]) = O
        /\ Out(Variant, cfg, env, [hd EXCEPT ![n] = Prepend(hd[n], quoted)]) = O     \* a quote merges nothing
\* ... and so it cannot change what the trusted-host check says
ExtraLeftSameVerdict ==
  (Final /\ Len(HVals(hd.host)) >= cfg.x_host /\ hd.host.p /\ hd.host.text # <<>>) =>
     /\ EnvVerdicts(<<>>, Out(Variant, cfg, env, [hd EXCEPT !.host = Prepend(hd.host, acom)]), Trusted) = EnvVerdicts(<<>>, O, Trusted)
     /\ EnvVerdicts(<<>>, Out(Variant, cfg, env, [hd EXCEPT !.host = Prepend(hd.host, quoted)]), Trusted) = EnvVerdicts(<<>>, O, Trusted)
\* the case the repo fix 2d7315b is about, spelled out: client `ev"il`, one proxy appends `, 1.1`, x_for = 1
QuoteExample == LET h == [NoHd EXCEPT !.for = [p |-> TRUE, text |-> quoted \o <<COMMA, 32>> \o <<49, 46, 49>>]]
                IN Out(Variant, [NoCfg EXCEPT !.x_for = 1], Env0, h).remote = <<49, 46, 49>>
\* count 0 / absent header / fewer values than trusted proxies: untouched
UntouchedWhenUnconfigured ==
  Final => /\ ((cfg.x_host = 0 \/ Len(HVals(hd.host)) < cfg.x_host) /\ (cfg.x_port = 0 \/ Len(HVals(hd.port)) < cfg.x_port))
              => (O.host = env.host /\ O.hostp = env.hostp /\ O.sname = env.sname /\ O.sport = env.sport)
           /\ (cfg.x_for = 0 \/ Len(HVals(hd.for)) < cfg.x_for) => O.remote = env.remote
           /\ (cfg.x_proto = 0 \/ Len(HVals(hd.proto)) < cfg.x_proto) => O.scheme = env.scheme
           /\ (cfg.x_prefix = 0 \/ Len(HVals(hd.prefix)) < cfg.x_prefix) => O.script = env.script
\* the selected host decides: HTTP_HOST names the selected value's host, and the port pieces agree
SelectedHostDecides ==
  Final => LET vs == HVals(hd.host) n == cfg.x_host IN
           (n > 0 /\ Len(vs) >= n) =>
              LET sel == vs[Len(vs) - n + 1] IN sel # <<>> =>
              /\ O.hostp /\ NameOfHP(O.host) = NameOfHP(sel) /\ O.sname = NameOfHP(sel)
              /\ (HasPort(O.host) => PortOfHP(O.host) = O.sport)
\* a bracketed literal never loses its brackets nor gets cut inside them
LiteralIntact ==
  (Final /\ O.hostp /\ O.host # <<>> /\ O.host[1] = LBR) =>
              (\E k \in 1..Len(O.host) : O.host[k] = RBR /\ Take(O.host, k) \in {lit, <<91, 58, 58, 50, 93>>})

Export == Final => PrintT(ToJson([cfg |-> cfg, env |-> env, hd |-> hd, out |-> O]))
=============================================================================
