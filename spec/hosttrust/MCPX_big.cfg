CONSTANTS
  Variant = "right"
  MaxHostLen = 3
  MaxPortLen = 2
  MaxOtherLen = 2
INIT Init
NEXT Next
INVARIANT Export
