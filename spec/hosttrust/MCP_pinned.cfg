CONSTANTS
  Variant = "pinned"
  MaxHostLen = 2
  MaxPortLen = 1
  MaxOtherLen = 1
INIT Init
NEXT Next
INVARIANT ExtraLeftSameVerdict
