CONSTANTS
  Variant = "ci_no_iterable_close"
  MaxDepth = 3
INIT CIInitS
NEXT CINextS
CHECK_DEADLOCK FALSE
VIEW View
PROPERTY StepsOK
