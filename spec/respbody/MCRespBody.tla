----------------------------- MODULE MCRespBody -----------------------------
(* Every history of at most MaxDepth accessor calls from every initial body of the universe   *)
(* `Inits`: the model Step (variant `Variant`) must satisfy the documented contract Clause on *)
(* every transition and the conservation invariant in every state.  With ACTION_CONSTRAINT    *)
(* Export the labelled transition system is printed for the replay on the real class.         *)
EXTENDS RespBody, TLC, Json

CONSTANTS Variant, MaxDepth, Universe
VARIABLES s, depth, act
vars == <<s, depth, act>>
View == <<s, depth>>

Se == SI(<<233>>)            \* "é"  (2 bytes)
S2 == SI(<<50>>)             \* "2"
B1 == BI(<<49>>)             \* b"1"
Bx == BI(<<195>>)            \* b"\xc3" (not UTF-8 on its own)
Be == BI(<<>>)               \* b""
I0 == [kind |-> "list", items |-> <<>>, pt |-> FALSE, ncb |-> 0, json |-> TRUE, etag |-> FALSE, bs |-> 1]
I(kind, items) == [I0 EXCEPT !.kind = kind, !.items = items]

\* quick universe: one or two bodies per kind of body
InitsQ == {I("str", <<Se>>), I("bytes", <<B1>>), I("list", <<B1, S2>>), I("tuple", <<Se, Bx>>),
           I("iter", <<B1, S2>>), [I("iter", <<Se, B1, Be>>) EXCEPT !.ncb = 1],
           I("gen", <<S2, B1>>), [I("gen", <<Bx, Se>>) EXCEPT !.ncb = 1, !.json = FALSE],
           I("nocl", <<B1, Se>>),
           [I("iter", <<B1, Bx>>) EXCEPT !.pt = TRUE], [I("list", <<S2, B1>>) EXCEPT !.pt = TRUE, !.ncb = 1],
           [I("fw", <<BI(<<49, 50, 51>>)>>) EXCEPT !.pt = TRUE, !.bs = 2],
           [I("list", <<B1>>) EXCEPT !.etag = TRUE, !.json = FALSE]}
\* thorough universe: every body of at most 3 chunks over {b"1", "é", b""} for each kind, passthrough or not
Alpha == {B1, Se, Be}
InitsT == {[I(k, items) EXCEPT !.pt = pt, !.ncb = n] :
              k \in {"list", "tuple", "iter", "gen", "nocl"}, items \in SeqsUpTo(Alpha, 3), pt \in BOOLEAN, n \in {0, 1}}
          \cup {[I("fw", <<BI(c)>>) EXCEPT !.pt = pt, !.bs = b] : c \in {<<>>, <<49, 50, 51>>, <<49, 50, 51, 52>>}, b \in {1, 2, 5}, pt \in BOOLEAN}
          \cup InitsQ
\* for the broken variants: two iterables and a list
InitsM == {[I("gen", <<S2, B1>>) EXCEPT !.ncb = 1], I("iter", <<Se, B1>>), I("list", <<B1, S2>>)}
Inits == IF Universe = "quick" THEN InitsQ ELSE IF Universe = "mini" THEN InitsM ELSE InitsT

Ops ==    {[O0 EXCEPT !.o = "get_data", !.b = b] : b \in BOOLEAN}
     \cup {[O0 EXCEPT !.o = o] : o \in {"data_get", "make_sequence", "freeze", "calc_len", "is_streamed", "is_sequence",
                                        "stream_tell", "stream_flush", "stream_close", "json", "close", "call_on_close", "force_type"}}
     \cup {[O0 EXCEPT !.o = "set_data", !.v = v] : v \in {Se, B1}}
     \cup {[O0 EXCEPT !.o = "data_set", !.v = S2]}
     \cup {[O0 EXCEPT !.o = "iter_take", !.n = n] : n \in {1, 2, ALL}}
     \cup {[O0 EXCEPT !.o = "stream_write", !.v = v] : v \in {B1, Se}}
     \cup {[O0 EXCEPT !.o = "stream_writelines", !.items = <<B1, S2>>]}
     \cup {[O0 EXCEPT !.o = "get_json", !.b = b, !.c = c] : b, c \in BOOLEAN}
     \cup {[O0 EXCEPT !.o = "call", !.k = m, !.n = n] : m \in {"GET", "HEAD"}, n \in {0, 1, ALL}}
     \cup {[O0 EXCEPT !.o = "with", !.b = b] : b \in BOOLEAN}
     \cup {[O0 EXCEPT !.o = o, !.b = b] : o \in {"set_isc", "set_pt"}, b \in BOOLEAN}
     \cup {[O0 EXCEPT !.o = "assign", !.k = "list", !.items = <<S2>>],
           [O0 EXCEPT !.o = "assign", !.k = "tuple", !.items = <<B1, Se>>],
           [O0 EXCEPT !.o = "assign", !.k = "iter", !.items = <<Se, B1>>]}
     \cup {[O0 EXCEPT !.o = "copy", !.k = k] : k \in {"pickle", "deepcopy"}}

Init == \E i \in Inits : s = InitState(i) /\ depth = 0 /\ act = [init |-> i, op |-> O0, o |-> Obs(Res(InitState(i))), c |-> "ok"]
Next == /\ depth < MaxDepth
        /\ \E op \in Ops :
             /\ Enabled(s, op)
             /\ LET r == Step(Variant, s, op) IN
                /\ s' = r.s
                /\ act' = [init |-> act.init, op |-> op, o |-> Obs(r), c |-> Clause(s, op, Proj(s), Obs(r))]
        /\ depth' = depth + 1

\* the contract holds on every transition the model takes (an action property: TLC evaluates it on every
\* transition, also on those into a state it has already seen)
StepsOK == [][act'.c = "ok"]_vars
Conserved == Conservation(s)
Export == PrintT(ToJson([depth |-> depth, pre |-> s, init |-> act.init, op |-> act'.op, o |-> act'.o, post |-> s']))
=============================================================================
