CONSTANTS
  Variant = "fw_no_close"
  MaxDepth = 4
INIT FWInitS
NEXT FWNextS
CHECK_DEADLOCK FALSE
VIEW View
PROPERTY StepsOK
INVARIANT FWCovered
