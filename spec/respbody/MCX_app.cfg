CONSTANTS
  Variant = "fixed"
  MaxDepth = 1
INIT AppInitS
NEXT NoNext
CHECK_DEADLOCK FALSE
VIEW View
INVARIANT AppOK
INVARIANT AppExport
