CONSTANTS
  Variant = "ci_reverse"
  MaxDepth = 3
INIT CIInitS
NEXT CINextS
CHECK_DEADLOCK FALSE
VIEW View
PROPERTY StepsOK
