CONSTANTS
  Variant = "app_not_buffered"
  MaxDepth = 1
INIT AppInitS
NEXT NoNext
CHECK_DEADLOCK FALSE
VIEW View
INVARIANT AppOK
