CONSTANTS
  Variant = "fixed"
  MaxDepth = 2
  Universe = "thorough"
INIT Init
NEXT Next
CHECK_DEADLOCK FALSE
VIEW View
PROPERTY StepsOK
INVARIANT Conserved
