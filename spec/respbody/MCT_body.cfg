CONSTANTS
  Variant = "fixed"
  MaxDepth = 4
  Universe = "quick"
INIT Init
NEXT Next
CHECK_DEADLOCK FALSE
VIEW View
PROPERTY StepsOK
INVARIANT Conserved
