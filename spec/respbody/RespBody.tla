------------------------------ MODULE RespBody ------------------------------
(* X04: the body state machine of werkzeug.wrappers.Response.                                  *)
(*                                                                                            *)
(* Two layers.                                                                                *)
(*  Step(var, s, op)   implementation-shaped model: the `response` attribute (list / tuple /   *)
(*                     an iterable with `items` not yet yielded), Content-Length / ETag         *)
(*                     presence, direct_passthrough, implicit_sequence_conversion, _on_close,   *)
(*                     per iterable counters (items yielded, StopIterations, close() calls),    *)
(*                     one operator clause per public accessor.  `var` selects the committed     *)
(*                     behaviour ("fixed") or a deliberately broken variant.                    *)
(*  Clause(s, op, prev, o)  the documented contract, as a relation between the abstract         *)
(*                     pre-state, the call, the previous observation and what the call was      *)
(*                     observed to return / leave behind.  Every clause quotes the sentence of  *)
(*                     the documentation (docstrings of src/werkzeug/wrappers/response.py,      *)
(*                     docs/wrappers.rst) it is taken from.  Only clauses give verdicts.        *)
(* MCRespBody checks  Step |= Clause  for every history of a bounded universe; RespBodyTrace    *)
(* evaluates Clause on recorded executions of the real class (and reports any other            *)
(* disagreement with Step as model drift).                                                    *)
EXTENDS Text, Integers, FiniteSets

BI(v) == [k |-> "b", v |-> v]                     \* a bytes item
SI(v) == [k |-> "s", v |-> v]                     \* a str item (code points)
Enc(it) == IF it.k = "s" THEN Utf8Enc(it.v) ELSE it.v
EncAll(items) == [j \in 1..Len(items) |-> BI(Enc(items[j]))]
BytesOf(items) == Concat([j \in 1..Len(items) |-> Enc(items[j])])
RawLen(items) == SumSeq([j \in 1..Len(items) |-> Len(items[j].v)])
AllBytes(items) == \A j \in 1..Len(items) : items[j].k = "b"
ALL == 9                                          \* "pull until StopIteration"

\* FileWrapper: "It yields `buffer_size` blocks until the file is fully read."
RECURSIVE FWBlocks(_, _)
FWBlocks(content, bs) == IF content = <<>> THEN <<>> ELSE <<Take(content, bs)>> \o FWBlocks(Drop(content, bs), bs)

\* JSON documents the model can classify without a JSON parser: digits 1-9 only = that number;
\* empty, or digits mixed with 'x' / bytes >= 0x80 (no quotes, no white space) = not JSON; else unknown
IsDigits(bs) == bs # <<>> /\ \A j \in 1..Len(bs) : bs[j] >= 49 /\ bs[j] <= 57
JsonBad(bs) == bs = <<>> \/ (~IsDigits(bs) /\ \A j \in 1..Len(bs) : (bs[j] >= 49 /\ bs[j] <= 57) \/ bs[j] = 120 \/ bs[j] >= 128)

\* ---------------------------------------------------------------- state
EvS(id) == [t |-> "src", id |-> id]               \* close() of iterable id
EvC(id) == [t |-> "cb", id |-> id]                \* call of the id-th call_on_close function
Count(evs, x) == Cardinality({j \in 1..Len(evs) : evs[j] = x})
NoIt == [live |-> FALSE, hc |-> FALSE, gen |-> FALSE, y |-> 0, stops |-> 0, closes |-> 0, wz |-> FALSE]
R0 == [k |-> "none", by |-> <<>>, n |-> 0, b |-> FALSE, ch |-> <<>>]
O0 == [o |-> "", v |-> BI(<<>>), b |-> FALSE, c |-> FALSE, n |-> 0, k |-> "", items |-> <<>>]

\* init = [kind: str|bytes|list|tuple|iter|gen|nocl|fw, items, pt, ncb, json, etag, bs]
\*  iter = closable iterator object, gen = a real generator, nocl = iterator without close(),
\*  fw = werkzeug.wsgi.FileWrapper(file with content items[1].v, buffer_size bs)
StreamKinds == {"iter", "gen", "nocl", "fw"}
InitState(init) ==
  LET one == init.kind \in {"str", "bytes"}
      stream == init.kind \in StreamKinds
      items == IF one THEN <<BI(Enc(init.items[1]))>>
               ELSE IF init.kind = "fw" THEN LET bl == FWBlocks(init.items[1].v, init.bs) IN [j \in 1..Len(bl) |-> BI(bl[j])]
               ELSE init.items
  IN [seq |-> ~stream, tup |-> init.kind = "tuple", items |-> items, src |-> IF stream THEN 1 ELSE 0,
      pt |-> init.pt, isc |-> TRUE, cl |-> IF one THEN Len(items[1].v) ELSE 0 - 1,
      etag |-> IF init.etag THEN "preset" ELSE "none", json |-> init.json,
      oncl |-> [j \in 1..init.ncb |-> EvC(j)], cbn |-> [j \in 1..init.ncb |-> 0],
      its |-> <<[NoIt EXCEPT !.live = stream, !.hc = init.kind \in {"iter", "gen", "fw"}, !.gen = (init.kind = "gen")], NoIt>>,
      sclosed |-> FALSE, frozen |-> FALSE, pure |-> TRUE, lost |-> FALSE, taken |-> <<>>, orig |-> BytesOf(items),
      cls |-> "Response"]

\* ---------------------------------------------------------------- model of the accessors
Res(s) == [s |-> s, exc |-> "", ret |-> R0, ev |-> <<>>]
Exc(s, e) == [s |-> s, exc |-> e, ret |-> R0, ev |-> <<>>]
Pull(its, id, j, stop) == [its EXCEPT ![id].y = @ + j, ![id].stops = @ + (IF stop THEN 1 ELSE 0)]
CloseSrc(its, id) == [its EXCEPT ![id].closes = @ + 1]
Wrapped(s) == IF s.seq THEN 0 ELSE s.src
HasClose(s) == ~s.seq /\ s.its[s.src].hc

\* next() up to n times on the body (the application / the server iterating): <<state, items handed out>>
PullN(var, s, n) ==
  IF s.seq THEN [s |-> s, got |-> Take(s.items, n)]
  ELSE LET j == IF var = "call_buffers" THEN Len(s.items) ELSE Min2(n, Len(s.items))
           g == Min2(n, Len(s.items))
       IN [s |-> [s EXCEPT !.items = Drop(s.items, j), !.its = Pull(s.its, s.src, j, n > Len(s.items)),
                           !.taken = @ \o BytesOf(Take(s.items, g))],
           got |-> Take(s.items, g)]

\* list(self.iter_encoded()) on an iterable body
Buffer(var, s) ==
  [s EXCEPT !.seq = TRUE, !.tup = FALSE, !.src = 0,
            !.items = IF var = "mkseq_noencode" THEN s.items ELSE EncAll(s.items),
            !.its = [Pull(s.its, s.src, Len(s.items), TRUE) EXCEPT ![s.src].wz = TRUE]]

\* make_sequence: "fixed" closes the consumed iterable at once (fixes/X04-*.diff); "deferred" = the
\* code before that fix: its bound close method is kept in _on_close until the response is closed
MakeSeq(var, s) ==
  IF s.seq THEN Res(s)
  ELSE LET b == Buffer(var, s) id == s.src IN
       IF ~s.its[id].hc THEN Res(b)
       ELSE IF var = "deferred" THEN Res([b EXCEPT !.oncl = Append(@, EvS(id))])
       ELSE [Res([b EXCEPT !.its = CloseSrc(@, id)]) EXCEPT !.ev = <<EvS(id)>>]
EnsureSeq(var, s, mutable) ==
  IF s.seq THEN Res(IF mutable /\ s.tup THEN [s EXCEPT !.tup = FALSE] ELSE s)
  ELSE IF s.pt \/ ~s.isc THEN Exc(s, "RuntimeError")
  ELSE MakeSeq(var, s)

\* Response.close(): the wrapped iterable's close (if it has one), then every _on_close entry
ApplyEvents(s, evs) ==
  [s EXCEPT !.its = [j \in 1..2 |-> [s.its[j] EXCEPT !.closes = @ + Count(evs, EvS(j))]],
            !.cbn = [j \in 1..Len(s.cbn) |-> s.cbn[j] + Count(evs, EvC(j))]]
Teardown(var, s) ==
  LET first == IF HasClose(s) THEN <<EvS(s.src)>> ELSE <<>>
      evs == IF var = "close_skips_callbacks" THEN first ELSE first \o s.oncl
      s1 == IF first # <<>> THEN [s EXCEPT !.lost = @ \/ s.items # <<>>, !.items = <<>>] ELSE s
  IN [Res(ApplyEvents(s1, evs)) EXCEPT !.ev = evs]

Write(var, r, it) ==
  IF r.exc # "" THEN r
  ELSE IF r.s.sclosed /\ var # "closed_stream_writes" THEN [r EXCEPT !.exc = "ValueError"]
  ELSE LET e == EnsureSeq(var, r.s, TRUE) IN
       IF e.exc # "" THEN [e EXCEPT !.ev = r.ev \o @]
       ELSE [s |-> [e.s EXCEPT !.items = Append(@, it), !.cl = 0 - 1, !.frozen = FALSE, !.pure = FALSE],
             exc |-> "", ret |-> [R0 EXCEPT !.k = "int", !.n = Len(it.v)], ev |-> r.ev \o e.ev]

\* pickle refuses a generator and a bound method of one; deepcopy refuses the generator, shares the method
Unpicklable(s, k) == \/ k = "pickle" /\ \E j \in 1..Len(s.oncl) : s.oncl[j].t = "src" /\ s.its[s.oncl[j].id].gen
                     \/ ~s.seq /\ s.its[s.src].gen

Step(var, s, op) ==
  CASE op.o \in {"get_data", "data_get"} ->
         LET e == EnsureSeq(var, s, FALSE) IN
         IF e.exc # "" THEN e
         ELSE LET bs == IF var = "getdata_reiter" /\ ~s.seq THEN <<>> ELSE BytesOf(e.s.items) IN
              IF op.o = "get_data" /\ op.b
              THEN IF Utf8Valid(bs, 1) THEN [e EXCEPT !.ret = [R0 EXCEPT !.k = "text", !.by = Utf8Dec(bs)]]
                   ELSE [e EXCEPT !.exc = "UnicodeDecodeError"]
              ELSE [e EXCEPT !.ret = [R0 EXCEPT !.k = "bytes", !.by = bs]]
    [] op.o \in {"set_data", "data_set"} ->
         Res([s EXCEPT !.seq = TRUE, !.tup = FALSE, !.items = <<BI(Enc(op.v))>>, !.src = 0,
                       !.cl = IF var = "setdata_nolen" THEN s.cl ELSE Len(Enc(op.v)), !.frozen = FALSE, !.pure = FALSE])
    [] op.o = "make_sequence" -> MakeSeq(var, s)
    [] op.o = "freeze" ->
         LET b == IF s.seq THEN [s EXCEPT !.tup = FALSE, !.items = EncAll(s.items)] ELSE Buffer(var, s)
             cl == HasClose(s) /\ var # "freeze_noclose"
             b2 == [b EXCEPT !.its = IF cl THEN CloseSrc(@, s.src) ELSE @, !.cl = Len(BytesOf(s.items)),
                             !.etag = IF s.etag = "none" THEN "other" ELSE s.etag, !.frozen = TRUE]
         IN [Res(b2) EXCEPT !.ev = IF cl THEN <<EvS(s.src)>> ELSE <<>>]
    [] op.o = "iter_take" ->
         LET p == PullN(var, s, op.n) IN [Res(p.s) EXCEPT !.ret = [R0 EXCEPT !.k = "chunks", !.ch = EncAll(p.got)]]
    [] op.o = "calc_len" ->
         LET e == EnsureSeq(var, s, FALSE) IN
         IF e.exc # "" THEN Res(s) ELSE [e EXCEPT !.ret = [R0 EXCEPT !.k = "int", !.n = Len(BytesOf(e.s.items))]]
    [] op.o = "is_streamed" -> [Res(s) EXCEPT !.ret = [R0 EXCEPT !.k = "bool", !.b = ~s.seq]]
    [] op.o = "is_sequence" -> [Res(s) EXCEPT !.ret = [R0 EXCEPT !.k = "bool", !.b = s.seq]]
    [] op.o = "stream_write" -> Write(var, Res(s), op.v)
    [] op.o = "stream_writelines" ->
         LET r == IF Len(op.items) = 0 THEN Res(s)
                  ELSE IF Len(op.items) = 1 THEN Write(var, Res(s), op.items[1])
                  ELSE Write(var, Write(var, Res(s), op.items[1]), op.items[2])
         IN IF r.exc = "" THEN [r EXCEPT !.ret = R0] ELSE r
    [] op.o = "stream_tell" ->
         LET e == EnsureSeq(var, s, FALSE) IN
         IF e.exc # "" THEN e ELSE [e EXCEPT !.ret = [R0 EXCEPT !.k = "int", !.n = RawLen(e.s.items)]]
    [] op.o = "stream_flush" -> IF s.sclosed THEN Exc(s, "ValueError") ELSE Res(s)
    [] op.o = "stream_close" -> Res([s EXCEPT !.sclosed = TRUE])
    [] op.o \in {"get_json", "json"} ->
         LET force == op.o = "get_json" /\ op.b
             silent == op.o = "get_json" /\ op.c
         IN IF ~(force \/ s.json) THEN Res(s)
            ELSE LET e == EnsureSeq(var, s, FALSE) IN
                 IF e.exc # "" THEN e
                 ELSE LET bs == BytesOf(e.s.items) IN
                      IF IsDigits(bs) THEN [e EXCEPT !.ret = [R0 EXCEPT !.k = "json", !.by = bs]]
                      ELSE IF JsonBad(bs) THEN (IF silent THEN e ELSE [e EXCEPT !.exc = IF Utf8Valid(bs, 1) THEN "JSONDecodeError" ELSE "UnicodeDecodeError"])
                      ELSE [e EXCEPT !.ret = [R0 EXCEPT !.k = "any"]]
    [] op.o = "call" ->
         \* response(environ, start_response); the server pulls up to n chunks and closes the iterable
         LET head == op.k = "HEAD"
             raw  == s.pt /\ ~head
             p    == IF head THEN [s |-> s, got |-> <<>>] ELSE PullN(var, s, op.n)
             t    == Teardown(var, p.s)
             hcl  == IF s.cl >= 0 THEN s.cl ELSE IF s.seq THEN Len(BytesOf(s.items)) ELSE 0 - 1
         IN [t EXCEPT !.ret = [R0 EXCEPT !.k = "chunks", !.ch = IF raw THEN p.got ELSE EncAll(p.got), !.n = hcl,
                                         !.b = raw /\ s.oncl = <<>>, !.by = <<1>>]]
    [] op.o = "close" -> Teardown(var, s)
    [] op.o = "with" -> LET t == Teardown(var, s) IN
                        [t EXCEPT !.exc = IF op.b THEN "KeyError" ELSE "", !.ret = [R0 EXCEPT !.k = "same", !.b = TRUE]]
    [] op.o = "call_on_close" ->
         [Res([s EXCEPT !.oncl = Append(@, EvC(Len(s.cbn) + 1)), !.cbn = Append(@, 0)]) EXCEPT !.ret = [R0 EXCEPT !.k = "same", !.b = TRUE]]
    [] op.o = "set_isc" -> Res([s EXCEPT !.isc = op.b])
    [] op.o = "set_pt" -> Res([s EXCEPT !.pt = op.b])
    [] op.o = "assign" ->
         \* response.response = a list / tuple / closable iterator (second iterable slot)
         IF op.k = "iter"
         THEN Res([s EXCEPT !.seq = FALSE, !.tup = FALSE, !.items = op.items, !.src = 2, !.frozen = FALSE, !.pure = FALSE,
                            !.its = [@ EXCEPT ![2] = [NoIt EXCEPT !.live = TRUE, !.hc = TRUE]]])
         ELSE Res([s EXCEPT !.seq = TRUE, !.tup = (op.k = "tuple"), !.items = op.items, !.src = 0, !.frozen = FALSE, !.pure = FALSE])
    [] op.o = "force_type" -> [Res([s EXCEPT !.cls = "Sub"]) EXCEPT !.ret = [R0 EXCEPT !.k = "same", !.b = TRUE]]
    [] op.o = "copy" ->
         \* pickle round trip (k = "pickle") or copy.deepcopy (k = "deepcopy"); the harness' own objects are picklable
         IF Unpicklable(s, op.k) THEN Exc(s, "TypeError")
         ELSE IF s.seq THEN [Res(s) EXCEPT !.ret = [R0 EXCEPT !.k = "copy", !.b = TRUE, !.by = BytesOf(s.items)]]
         ELSE [Res(s) EXCEPT !.ret = [R0 EXCEPT !.k = "any"]]
    [] OTHER -> Res(s)

Enabled(s, op) == /\ (op.o = "assign" /\ op.k = "iter") => ~s.its[2].live
                  /\ op.o = "call_on_close" => Len(s.cbn) < 2

\* ---------------------------------------------------------------- observation
\* what the recorder projects out of the real object after every call
Proj(s) == [ty |-> IF s.seq THEN (IF s.tup THEN "tuple" ELSE "list") ELSE "stream",
            items |-> IF s.seq THEN s.items ELSE <<>>, cl |-> s.cl, etag |-> s.etag,
            its |-> [j \in 1..2 |-> [y |-> s.its[j].y, stops |-> s.its[j].stops, closes |-> s.its[j].closes,
                                     done |-> s.its[j].stops > 0 \/ s.its[j].closes > 0, g |-> s.its[j].gen]],
            cbn |-> s.cbn, cls |-> s.cls, sc |-> s.sclosed]
Obs(r) == [exc |-> r.exc, ret |-> r.ret, ev |-> r.ev, post |-> Proj(r.s)]

\* ---------------------------------------------------------------- the contract
IsSeqTy(ty) == ty \in {"list", "tuple"}
Blocked(s) == ~s.seq /\ (s.pt \/ ~s.isc)          \* nothing may consume the iterable implicitly
SrcSame(prev, o) == \A j \in 1..2 : o.post.its[j].y = prev.its[j].y
Closedd(it) == IF it.g THEN it.done ELSE it.closes >= 1
Converters == {"get_data", "data_get", "calc_len", "stream_write", "stream_writelines", "stream_tell", "get_json", "json"}
Teardowns == {"close", "with", "call"}
CbEvents(ev) == SelectSeq(ev, LAMBDA e : e.t = "cb")

Clause(s, op, prev, o) ==
  LET bs  == BytesOf(s.items)
      ok  == o.exc = ""
      pb  == BytesOf(o.post.items)
      w   == Wrapped(s)
  IN
  \* ---- nothing consumes a body the application asked to be left alone
  \* implicit_sequence_conversion: "if set to `False` accessing properties on the response object will not try to
  \*   consume the response iterator and convert it into a list."
  \* direct_passthrough: "Pass the response body directly through as the WSGI iterable." / freeze: "Buffer the response
  \*   into a list, ignoring implicity_sequence_conversion and direct_passthrough" (only freeze ignores them)
  IF Blocked(s) /\ op.o \in Converters /\ ~SrcSame(prev, o) THEN "StreamNotConsumed"
  \* ---- readers
  \* get_data: "The string representation of the response body.  Whenever you call this property the response
  \*   iterable is encoded and flattened."
  ELSE IF op.o \in {"get_data", "data_get"} /\ ok /\ o.ret.k = "bytes" /\ o.ret.by # bs THEN "GetDataFlattens"
  \* get_data: "If `as_text` is set to `True` the return value will be a decoded string."
  ELSE IF op.o = "get_data" /\ ok /\ op.b /\ (o.ret.k # "text" \/ Utf8Enc(o.ret.by) # bs) THEN "GetDataText"
  ELSE IF op.o \in {"get_data", "data_get"} /\ ok /\ ~(op.o = "get_data" /\ op.b) /\ o.ret.k # "bytes" THEN "GetDataFlattens"
  \* get_data: "This behavior can be disabled by setting implicit_sequence_conversion to False." /
  \*   make_sequence: "If implicit_sequence_conversion is disabled, this method is not automatically called and some
  \*   properties might raise exceptions."  (a value could only be the flattened body, which was not consumed)
  ELSE IF op.o \in {"get_data", "data_get"} /\ ok /\ Blocked(s) /\ s.items # <<>> THEN "ConversionDisabledRaises"
  \* iter_encoded: "Iter the response encoded with the encoding of the response."
  ELSE IF op.o = "iter_take" /\ (~ok \/ o.ret.k # "chunks" \/ o.ret.ch # EncAll(Take(s.items, op.n))) THEN "IterEncoded"
  \* calculate_content_length: "Returns the content length if available or `None` otherwise."
  ELSE IF op.o = "calc_len" /\ ~ok THEN "CalcLenRaised"
  ELSE IF op.o = "calc_len" /\ o.ret.k = "int" /\ o.ret.n # Len(bs) THEN "CalcLenValue"
  ELSE IF op.o = "calc_len" /\ s.seq /\ o.ret.k # "int" THEN "CalcLenAvailable"
  ELSE IF op.o = "calc_len" /\ o.ret.k \notin {"int", "none"} THEN "CalcLenValue"
  \* is_streamed: "If the response is streamed (the response is not an iterable with a length information) this
  \*   property is `True`. ... This is usually `True` if a generator is passed to the response object."
  ELSE IF op.o = "is_streamed" /\ (~ok \/ o.ret.k # "bool" \/ o.ret.b # ~s.seq) THEN "IsStreamed"
  \* is_sequence: "A response object will consider an iterator to be buffered if the response attribute is a list or tuple."
  ELSE IF op.o = "is_sequence" /\ (~ok \/ o.ret.k # "bool" \/ o.ret.b # s.seq) THEN "IsSequence"
  \* get_json: "If the mimetype does not indicate JSON (application/json, see is_json), this returns None."
  \*   json: "Calls get_json with default arguments."
  ELSE IF op.o \in {"get_json", "json"} /\ ~s.json /\ ~(op.o = "get_json" /\ op.b) /\ (~ok \/ o.ret.k # "none") THEN "JsonMimetypeNone"
  \* get_json: "Parse data as JSON." / "force: Ignore the mimetype and always try to parse JSON." /
  \*   "silent: Silence parsing errors and return None instead."  (JsonUncached: "the result is not cached": the
  \*   value is that of the body at the time of the call)
  ELSE IF op.o \in {"get_json", "json"} /\ (s.json \/ (op.o = "get_json" /\ op.b)) /\ ~Blocked(s) /\ IsDigits(bs)
          /\ (~ok \/ o.ret.k # "json" \/ o.ret.by # bs) THEN "JsonParse"
  ELSE IF op.o \in {"get_json", "json"} /\ (s.json \/ (op.o = "get_json" /\ op.b)) /\ ~Blocked(s) /\ JsonBad(bs)
          /\ (op.o = "get_json" /\ op.c) /\ (~ok \/ o.ret.k # "none") THEN "JsonSilent"
  ELSE IF op.o \in {"get_json", "json"} /\ (s.json \/ (op.o = "get_json" /\ op.b)) /\ ~Blocked(s) /\ JsonBad(bs)
          /\ ~(op.o = "get_json" /\ op.c) /\ ok THEN "JsonInvalidRaises"
  \* ---- writers
  \* set_data: "Sets a new string as response.  The value must be a string or bytes.  If a string is set it's encoded
  \*   to the charset of the response (utf-8 by default)."
  ELSE IF op.o \in {"set_data", "data_set"} /\ (~ok \/ ~IsSeqTy(o.post.ty) \/ pb # Enc(op.v)) THEN "SetData"
  \* automatically_set_content_length: "Should this response object automatically set the content-length header if
  \*   possible?  This is true by default."
  ELSE IF op.o \in {"set_data", "data_set"} /\ o.post.cl # Len(Enc(op.v)) THEN "SetDataLength"
  \* make_sequence: "Converts the response iterator in a list. ... This also encodes all the items."
  ELSE IF op.o = "make_sequence" /\ (~ok \/ ~IsSeqTy(o.post.ty) \/ pb # bs) THEN "MakeSequence"
  ELSE IF op.o = "make_sequence" /\ ~s.seq /\ (o.post.ty # "list" \/ o.post.items # EncAll(s.items)) THEN "MakeSequenceEncodes"
  \* freeze: "Buffer the response into a list, ignoring implicity_sequence_conversion and direct_passthrough."
  ELSE IF op.o = "freeze" /\ (~ok \/ o.post.ty # "list" \/ pb # bs \/ ~AllBytes(o.post.items)) THEN "FreezeBuffers"
  \* freeze: "Set the Content-Length header."
  ELSE IF op.o = "freeze" /\ o.post.cl # Len(bs) THEN "FreezeLength"
  \* freeze: "Generate an ETag header if one is not already set."
  ELSE IF op.o = "freeze" /\ (o.post.etag = "none" \/ (s.etag = "preset" /\ o.post.etag # "preset")) THEN "FreezeEtag"
  \* freeze: "Make the response object ready to be pickled." / docs/wrappers.rst: "The response object can be pickled
  \*   or copied after `freeze()` was called."
  ELSE IF op.o = "copy" /\ s.frozen /\ (~ok \/ o.ret.k # "copy" \/ ~o.ret.b \/ o.ret.by # bs) THEN "FreezePicklable"
  \* ResponseStream: "It directly pushes into the response iterable of the response object." / stream: "The response
  \*   iterable as write-only stream."
  ELSE IF op.o = "stream_write" /\ ok /\ (~IsSeqTy(o.post.ty) \/ pb # bs \o Enc(op.v)) THEN "StreamWriteAppends"
  ELSE IF op.o = "stream_writelines" /\ ok /\ op.items # <<>> /\ (~IsSeqTy(o.post.ty) \/ pb # bs \o BytesOf(op.items)) THEN "StreamWriteAppends"
  \* ResponseStream: "A file descriptor like object" (closed attribute): writing to a closed file raises, nothing is written
  ELSE IF op.o = "stream_write" /\ s.sclosed /\ ok THEN "ClosedStreamWrite"
  \* a file's tell() after appending writes is the number of bytes in it (claimed when every item is bytes)
  ELSE IF op.o = "stream_tell" /\ ok /\ (s.seq => AllBytes(s.items)) /\ (o.ret.k # "int" \/ o.ret.n # Len(bs)) THEN "StreamTell"
  \* ---- WSGI call, close, context manager
  \* Response: "When called (__call__) with environ and start_response, it will pass its status and headers to
  \*   start_response then return its body as an iterable." / iter_encoded: "If the response object is invoked as WSGI
  \*   application the return value of this method is used as application iterator unless direct_passthrough was
  \*   activated." / docs/wrappers.rst: "it's safe to use the same response object for multiple WSGI responses."
  ELSE IF op.o = "call" /\ op.k # "HEAD" /\ ~s.pt /\ (~ok \/ o.ret.k # "chunks" \/ o.ret.ch # EncAll(Take(s.items, op.n))) THEN "CallBody"
  \* direct_passthrough: "Pass the response body directly through as the WSGI iterable." (the items as they are)
  ELSE IF op.o = "call" /\ op.k # "HEAD" /\ s.pt /\ (~ok \/ o.ret.k # "chunks" \/ o.ret.ch # Take(s.items, op.n)) THEN "CallPassthrough"
  \* Response: "Passing an iterable of bytes or strings makes this a streaming response.  A generator is particularly
  \*   useful for ... SSE": the iterable is advanced only as far as the consumer pulled
  ELSE IF op.o \in {"call", "iter_take"} /\ w > 0 /\ ~(op.o = "call" /\ op.k = "HEAD")
          /\ o.post.its[w].y # prev.its[w].y + Min2(op.n, Len(s.items)) THEN "StreamedLazily"
  \* close: "Close the wrapped response if possible.  You can also use the object in a with statement which will
  \*   automatically close it."  (PEP 3333 for __call__: the server's close() reaches the iterable)
  ELSE IF op.o \in Teardowns /\ w > 0 /\ s.its[w].hc /\ ~Closedd(o.post.its[w]) THEN "CloseClosesWrapped"
  ELSE IF op.o \in Teardowns /\ w > 0 /\ s.its[w].hc /\ ~s.its[w].gen /\ o.post.its[w].closes # prev.its[w].closes + 1 THEN "CloseClosesWrapped"
  ELSE IF op.o = "with" /\ o.exc # (IF op.b THEN "KeyError" ELSE "") THEN "WithStatement"
  \* make_sequence (source): "if we consume an iterable we have to ensure that the close method of the iterable is
  \*   called if available when we tear down the response"; ClosingIterator: "The WSGI specification requires that all
  \*   middlewares and gateways respect the `close` callback of the iterable returned by the application."
  ELSE IF op.o \in Teardowns /\ \E j \in 1..2 : s.its[j].live /\ s.its[j].hc /\ s.its[j].wz /\ ~Closedd(o.post.its[j]) THEN "ConsumedIterableClosed"
  ELSE IF \E j \in 1..2 : ~o.post.its[j].g /\ o.post.its[j].closes > prev.its[j].closes + 1 THEN "ClosedTwice"
  \* call_on_close: "Adds a function to the internal list of functions that should be called as part of closing down
  \*   the response." (each once per close, in list order; the application iterable handed out in direct passthrough
  \*   mode is closed by the server through the same path)
  ELSE IF op.o \in Teardowns /\ \E j \in 1..Len(s.cbn) : Count(o.ev, EvC(j)) # 1 THEN "CallbacksOnClose"
  ELSE IF op.o \in Teardowns /\ CbEvents(o.ev) # [j \in 1..Len(s.cbn) |-> EvC(j)] THEN "CallbacksInOrder"
  ELSE IF op.o \notin Teardowns /\ CbEvents(o.ev) # <<>> THEN "CallbacksOnlyOnClose"
  \* call_on_close: "this function also returns the function that was passed so that this can be used as a decorator."
  ELSE IF op.o = "call_on_close" /\ (~ok \/ o.ret.k # "same" \/ ~o.ret.b) THEN "CallOnCloseReturns"
  \* force_type: "Enforce that the WSGI response is a response object of the current type." / "Keep in mind that this
  \*   will modify response objects in place if possible!"
  ELSE IF op.o = "force_type" /\ (~ok \/ o.ret.k # "same" \/ ~o.ret.b \/ o.post.cls # "Sub" \/ ~SrcSame(prev, o)
                                  \/ o.post.ty # prev.ty \/ o.post.items # prev.items) THEN "ForceType"
  ELSE "ok"

\* no byte is produced twice and none is lost: what consumers pulled from the iterable so far followed by what the
\* buffered body holds is the original body, whatever sequence of accessors ran (as long as nobody replaced the body
\* or closed the iterable before it was exhausted)
Conservation(s) == (s.pure /\ ~s.lost) => s.taken \o BytesOf(s.items) = s.orig
ConservationObs(s1, takenObs, post) ==
  (s1.pure /\ ~s1.lost /\ IsSeqTy(post.ty)) => takenObs \o BytesOf(post.items) = s1.orig
=============================================================================
