----------------------------- MODULE MCWsgiIter -----------------------------
(* Bounded universes for WsgiIter: every next/close history of a ClosingIterator, every       *)
(* next/close/seek/tell history of a FileWrapper, the from_app / force_type table.            *)
EXTENDS WsgiIter, TLC, Json

CONSTANTS Variant, MaxDepth
VARIABLES c, st, depth, act
vars == <<c, st, depth, act>>
View == <<c, st, depth>>

B1 == BI(<<49>>)
B2 == BI(<<50, 51>>)
Be == BI(<<>>)
OpN(o, n) == [O0 EXCEPT !.o = o, !.n = n]

\* ---- ClosingIterator
CICases == {[items |-> items, hc |-> hc, mode |-> m[1], ncb |-> m[2]] :
              items \in {<<>>, <<B1>>, <<B1, Be, B2>>}, hc \in BOOLEAN,
              m \in {<<"none", 0>>, <<"single", 1>>, <<"list", 0>>, <<"list", 1>>, <<"list", 2>>, <<"tuple", 3>>}}
CIInitS == c \in CICases /\ st = CIInit /\ depth = 0 /\ act = [op |-> O0, o |-> CIObs([st |-> CIInit, exc |-> "", ret |-> R0, ev |-> <<>>]), v |-> "ok"]
CINextS == /\ depth < MaxDepth
           /\ \E o \in {"next", "close"} :
                LET op == OpN(o, 0) r == CIStep(Variant, c, st, op) IN
                /\ st' = r.st
                /\ act' = [op |-> op, o |-> CIObs(r), v |-> CIClause(c, st, op, CIPost(st), CIObs(r))]
           /\ depth' = depth + 1 /\ c' = c

\* ---- FileWrapper
FWCases == {[content |-> ct, bs |-> bs, short |-> sh, pos0 |-> p] :
              ct \in {<<>>, <<49>>, <<49, 50, 51>>, <<49, 50, 51, 52>>}, bs \in {1, 2, 3}, sh \in {0, 1}, p \in {0, 1}}
FWOps == {OpN("next", 0), OpN("close", 0), OpN("tell", 0), OpN("seekable", 0), OpN("seek", 0), OpN("seek", 2)}
FWInitS == c \in FWCases /\ st = FWInit(c) /\ depth = 0 /\ act = [op |-> O0, o |-> FWObs([st |-> FWInit(c), exc |-> "", ret |-> R0]), v |-> "ok"]
FWNextS == /\ depth < MaxDepth
           /\ \E op \in FWOps :
                LET r == FWStep(Variant, c, st, op) IN
                /\ st' = r.st
                /\ act' = [op |-> op, o |-> FWObs(r), v |-> FWClause(c, st, op, FWPost(st), FWObs(r))]
           /\ depth' = depth + 1 /\ c' = c
FWCovered == FWCover(c, st)

\* ---- from_app / force_type (depth 1: a table)
AppCases == {[via |-> via, items |-> items, nw |-> IF via = "force_resp" THEN 0 ELSE nw, hc |-> hc, buffered |-> b] :
               via \in {"from_app", "force_env", "force_noenv", "force_resp"}, items \in {<<>>, <<B1>>, <<Be, B2, B1>>},
               nw \in {0, 2}, hc \in BOOLEAN, b \in BOOLEAN}
AppInitS == c \in AppCases /\ st = 0 /\ depth = 0 /\ act = [op |-> O0, o |-> AppOut(Variant, c), v |-> AppClause(c, AppOut(Variant, c))]
NoNext == FALSE /\ UNCHANGED vars
AppOK == act.v = "ok"
AppExport == PrintT(ToJson([c |-> c, o |-> act.o]))

StepsOK == [][act'.v = "ok"]_vars
CIExport == PrintT(ToJson([depth |-> depth, c |-> c, pre |-> st, op |-> act'.op, o |-> act'.o, post |-> st']))
=============================================================================
