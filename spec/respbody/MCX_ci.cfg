CONSTANTS
  Variant = "fixed"
  MaxDepth = 4
INIT CIInitS
NEXT CINextS
CHECK_DEADLOCK FALSE
VIEW View
PROPERTY StepsOK
ACTION_CONSTRAINT CIExport
