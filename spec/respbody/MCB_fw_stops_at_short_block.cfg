CONSTANTS
  Variant = "fw_stops_at_short_block"
  MaxDepth = 4
INIT FWInitS
NEXT FWNextS
CHECK_DEADLOCK FALSE
VIEW View
PROPERTY StepsOK
INVARIANT FWCovered
