---------------------------- MODULE RespBodyTrace ----------------------------
(* Trace judge for X04.  Input: ndjson (TRACE_FILE); every line is one recorded execution.    *)
(*  hist: [init, obs0, hist: <<[op, o: [exc, ret, ev, post]]>>]   accessor calls on one real   *)
(*        Response (harness/respbody.py: run_case); obs0 = projection right after construction *)
(*  ci  : [c, hist]    next()/close() calls on one real ClosingIterator                        *)
(*  fw  : [c, hist]    next/close/tell/seek/seekable calls on one real FileWrapper             *)
(*  wf  : [server, bsgiven, obs]   one wrap_file() call                                        *)
(*  app : [c, o]       one Response.from_app / force_type call                                 *)
(* A verdict is the first clause of the documented contract (RespBody!Clause, WsgiIter!*Clause,*)
(* the conservation invariant) that the recorded values violate; any other disagreement with  *)
(* the model (under the committed "fixed" variant and under "deferred", the behaviour before   *)
(* fixes/X04-*.diff) is printed as model drift.                                                *)
EXTENDS WsgiIter, TLC, Json, IOUtils

Lines == ndJsonDeserialize(IOEnv.TRACE_FILE)

VARIABLE l
vars == <<l>>

\* ---- comparison of an observation with the model's (close() calls of a real generator cannot be counted)
\* hard: what the later clauses build on (results, the body, how far an iterable was advanced);
\* soft: bookkeeping of close() calls / StopIterations / callback counts (the model is re-synchronised and goes on)
HardDrift(m, x) ==
  IF m.ret.k # "any" /\ m.exc # x.exc THEN "exc"
  ELSE IF m.ret.k # "any" /\ m.ret # x.ret THEN "ret"
  ELSE IF m.post.ty # x.post.ty THEN "type"
  ELSE IF m.post.items # x.post.items THEN "items"
  ELSE IF m.post.cl # x.post.cl THEN "content-length"
  ELSE IF m.post.etag # x.post.etag THEN "etag"
  ELSE IF \E j \in 1..2 : m.post.its[j].y # x.post.its[j].y THEN "iterable-advanced"
  ELSE IF Len(m.post.cbn) # Len(x.post.cbn) THEN "callbacks-registered"
  ELSE IF m.post.cls # x.post.cls THEN "class"
  ELSE IF m.post.sc # x.post.sc THEN "stream-closed"
  ELSE "ok"
ItSame(m, x) == m.done = x.done /\ (x.g \/ (m.stops = x.stops /\ m.closes = x.closes))
EvVisible(ev, post) == SelectSeq(ev, LAMBDA e : ~(e.t = "src" /\ post.its[e.id].g))
SoftDrift(m, x) ==
  IF EvVisible(m.ev, m.post) # x.ev THEN "close-events"
  ELSE IF \E j \in 1..2 : ~ItSame(m.post.its[j], x.post.its[j]) THEN "iterable-close-counters"
  ELSE IF m.post.cbn # x.post.cbn THEN "callback-counts"
  ELSE "ok"
Resync(s, post) ==
  [s EXCEPT !.cbn = post.cbn,
            !.its = [j \in 1..2 |-> IF post.its[j].g THEN s.its[j]
                                     ELSE [s.its[j] EXCEPT !.stops = post.its[j].stops, !.closes = post.its[j].closes]]]

\* sf / sd: model state under "fixed" / "deferred"; okf / okd: that variant still agrees with everything observed;
\* d / ds: the first drift found so far and its step
RECURSIVE Run(_, _, _, _, _, _, _, _, _, _)
Run(sf, sd, okf, okd, prev, taken, hist, i, d, ds) ==
  IF i > Len(hist) THEN [v |-> "ok", d |-> d, step |-> ds]
  ELSE LET op == hist[i].op
           o == hist[i].o
       IN IF ~Enabled(sf, op) THEN [v |-> "ok", d |-> IF d = "ok" THEN "out-of-domain" ELSE d, step |-> IF d = "ok" THEN i ELSE ds]
          ELSE LET cl == Clause(sf, op, prev, o)
                   rf == Step("fixed", sf, op)
                   rd == Step("deferred", sd, op)
                   tk == IF op.o \in {"call", "iter_take"} /\ Wrapped(sf) > 0 /\ o.ret.k = "chunks" THEN taken \o BytesOf(o.ret.ch) ELSE taken
               IN IF cl # "ok" THEN [v |-> cl, d |-> "ok", step |-> i]
                  ELSE IF o.exc = "" /\ ~ConservationObs(rf.s, tk, o.post) THEN [v |-> "Conservation", d |-> "ok", step |-> i]
                  ELSE LET hf == IF okf THEN HardDrift(Obs(rf), o) ELSE "x"
                           hd == IF okd THEN HardDrift(Obs(rd), o) ELSE "x"
                           af == hf = "ok" /\ SoftDrift(Obs(rf), o) = "ok"
                           ad == hd = "ok" /\ SoftDrift(Obs(rd), o) = "ok"
                       IN IF af \/ ad THEN Run(rf.s, rd.s, af, ad, o.post, tk, hist, i + 1, d, ds)
                          ELSE IF hf = "ok" \/ hd = "ok"
                          THEN LET w == IF hf = "ok" THEN SoftDrift(Obs(rf), o) ELSE SoftDrift(Obs(rd), o) IN
                               Run(Resync(rf.s, o.post), Resync(rd.s, o.post), hf = "ok", hd = "ok", o.post, tk, hist, i + 1,
                                   IF d = "ok" THEN w ELSE d, IF d = "ok" THEN i ELSE ds)
                          ELSE [v |-> "ok", d |-> IF d = "ok" THEN (IF okf THEN hf ELSE hd) ELSE d, step |-> IF d = "ok" THEN i ELSE ds]

HistVerdict(ln) ==
  LET s0 == InitState(ln.init)
      m0 == Obs(Res(s0))
      x0 == [exc |-> "", ret |-> R0, ev |-> <<>>, post |-> ln.obs0]
  IN IF HardDrift(m0, x0) # "ok" \/ SoftDrift(m0, x0) # "ok" THEN [v |-> "ok", d |-> "construct", step |-> 0]
     ELSE Run(s0, s0, TRUE, TRUE, ln.obs0, <<>>, ln.hist, 1, "ok", 0)

\* ---- ClosingIterator / FileWrapper histories
RECURSIVE CIRun(_, _, _, _)
CIRun(c, st, hist, i) ==
  IF i > Len(hist) THEN [v |-> "ok", d |-> "ok", step |-> 0]
  ELSE LET op == hist[i].op  o == hist[i].o
           cl == CIClause(c, st, op, CIPost(st), o)
           r == CIStep("fixed", c, st, op)
       IN IF cl # "ok" THEN [v |-> cl, d |-> "ok", step |-> i]
          ELSE IF CIObs(r) # o THEN [v |-> "ok", d |-> "closing-iterator", step |-> i]
          ELSE CIRun(c, r.st, hist, i + 1)
RECURSIVE FWRun(_, _, _, _)
FWRun(c, st, hist, i) ==
  IF i > Len(hist) THEN [v |-> IF FWCover(c, st) THEN "ok" ELSE "FWCoversFile", d |-> "ok", step |-> 0]
  ELSE LET op == hist[i].op  o == hist[i].o
           cl == FWClause(c, st, op, FWPost(st), o)
           r == FWStep("fixed", c, st, op)
       IN IF cl # "ok" THEN [v |-> cl, d |-> "ok", step |-> i]
          ELSE IF FWObs(r) # o THEN [v |-> "ok", d |-> "file-wrapper", step |-> i]
          ELSE FWRun(c, r.st, hist, i + 1)

Verdict(ln) ==
  CASE ln.op = "hist" -> HistVerdict(ln)
    [] ln.op = "ci" -> CIRun(ln.c, CIInit, ln.hist, 1)
    [] ln.op = "fw" -> FWRun(ln.c, FWInit(ln.c), ln.hist, 1)
    [] ln.op = "wf" -> [v |-> WrapFileClause(ln.server, ln.bsgiven, ln.obs), d |-> "ok", step |-> 0]
    [] ln.op = "app" -> LET cl == AppClause(ln.c, ln.o) IN
                        [v |-> cl, d |-> IF cl = "ok" /\ AppOut("fixed", ln.c) # ln.o /\ ln.c.via # "force_noenv" THEN "from-app" ELSE "ok", step |-> 0]
    [] OTHER -> [v |-> "ok", d |-> "ok", step |-> 0]

Init == l = 1
Next == /\ l <= Len(Lines)
        /\ LET ln == Lines[l] r == Verdict(ln) IN
           /\ IF r.v = "ok" THEN TRUE ELSE PrintT(ToJson([reject |-> 1, t |-> ln.t, i |-> ln.i, clause |-> r.v, step |-> r.step]))
           /\ IF r.d = "ok" THEN TRUE ELSE PrintT(ToJson([drift |-> 1, t |-> ln.t, i |-> ln.i, what |-> r.d, step |-> r.step]))
        /\ l' = l + 1

Done == PrintT(ToJson([judged |-> Len(Lines)])) /\ TLCGet("generated") >= 0
=============================================================================
