------------------------------ MODULE WsgiIter ------------------------------
(* X04, second part: the iterables around a Response body.                                    *)
(*   werkzeug.wsgi.ClosingIterator            CIStep / CIClause                                *)
(*   werkzeug.wsgi.FileWrapper, wrap_file     FWStep / FWClause / FWCover                      *)
(*   Response.from_app, Response.force_type   AppOut / AppClause  (a decision table)           *)
(* As in RespBody: *Step = implementation-shaped model with broken variants, *Clause = the    *)
(* documented contract (docstrings of src/werkzeug/wsgi.py, wrappers/response.py, test.py)    *)
(* with the quoted sentence next to each clause; only clauses give verdicts.                   *)
EXTENDS RespBody

\* =========================================================== ClosingIterator
\* case c = [items, hc (the iterable has close()), mode: none|single|list|tuple, ncb]
\* state  = [pos, y, stops, closes]        (counters of the wrapped iterable)
\* op     = [o: next|close]     observation o = [exc, ret (R0 shape), ev, post = state without pos]
CIInit == [pos |-> 0, y |-> 0, stops |-> 0, closes |-> 0]
CIPost(st) == [y |-> st.y, stops |-> st.stops, closes |-> st.closes]
CIStep(var, c, st, op) ==
  IF op.o = "next"
  THEN IF st.pos < Len(c.items)
       THEN [st |-> [st EXCEPT !.pos = @ + 1, !.y = @ + 1], exc |-> "", ret |-> [R0 EXCEPT !.k = "chunks", !.ch = <<c.items[st.pos + 1]>>], ev |-> <<>>]
       ELSE [st |-> [st EXCEPT !.stops = @ + 1], exc |-> "StopIteration", ret |-> R0, ev |-> <<>>]
  ELSE LET itc == c.hc /\ var # "ci_no_iterable_close"
           cbs == IF var = "ci_single_ignored" /\ c.mode = "single" THEN <<>>
                  ELSE IF var = "ci_reverse" THEN [j \in 1..c.ncb |-> EvC(c.ncb + 1 - j)]
                  ELSE [j \in 1..c.ncb |-> EvC(j)]
       IN [st |-> [st EXCEPT !.closes = @ + (IF itc THEN 1 ELSE 0), !.pos = IF itc THEN Len(c.items) ELSE @],
           exc |-> "", ret |-> R0, ev |-> (IF itc THEN <<EvS(1)>> ELSE <<>>) \o cbs]
CIObs(r) == [exc |-> r.exc, ret |-> r.ret, ev |-> r.ev, post |-> CIPost(r.st)]

CIClause(c, st, op, prev, o) ==
  \* "Because it is useful to add another close action to a returned iterable ... this class can be used for that":
  \*   it still is that iterable: the items, in order, each once, then StopIteration
  IF op.o = "next" /\ st.pos < Len(c.items) /\ (o.exc # "" \/ o.ret.k # "chunks" \/ o.ret.ch # <<c.items[st.pos + 1]>>) THEN "CIYields"
  ELSE IF op.o = "next" /\ st.pos >= Len(c.items) /\ o.exc # "StopIteration" THEN "CIYields"
  ELSE IF op.o = "next" /\ o.ev # <<>> THEN "CICallbacksOnlyOnClose"
  \* "The WSGI specification requires that all middlewares and gateways respect the `close` callback of the iterable
  \*   returned by the application."
  ELSE IF op.o = "close" /\ (o.exc # "" \/ (c.hc /\ Count(o.ev, EvS(1)) # 1)) THEN "CIClosesIterable"
  \* "return ClosingIterator(app(environ, start_response), [cleanup_session, cleanup_locals])" /
  \*   "If there is just one close function it can be passed instead of the list."
  ELSE IF op.o = "close" /\ \E j \in 1..c.ncb : Count(o.ev, EvC(j)) # 1 THEN "CICallbacks"
  ELSE IF op.o = "close" /\ CbEvents(o.ev) # [j \in 1..c.ncb |-> EvC(j)] THEN "CICallbackOrder"
  ELSE "ok"

\* =========================================================== FileWrapper / wrap_file
\* case c = [content, bs, short (0: read(n) returns n bytes while available; k > 0: at most k per call), pos0]
\* state  = [pos, closed, closes]     op = [o: next|close|tell|seek|seekable, n]
FWInit(c) == [pos |-> c.pos0, closed |-> FALSE, closes |-> 0, seeked |-> FALSE, out |-> <<>>, stopped |-> FALSE]
FWRead(c, st, n) == IF st.closed THEN <<>> ELSE Take(Drop(c.content, st.pos), IF c.short > 0 THEN Min2(n, c.short) ELSE n)
FWStep(var, c, st, op) ==
  CASE op.o = "next" ->
         LET d == FWRead(c, st, c.bs) IN
         IF d = <<>> \/ (var = "fw_stops_at_short_block" /\ Len(d) < c.bs)
         THEN [st |-> [st EXCEPT !.stopped = TRUE, !.pos = @ + Len(d)], exc |-> "StopIteration", ret |-> R0]
         ELSE [st |-> [st EXCEPT !.pos = @ + Len(d), !.out = Append(@, d)], exc |-> "", ret |-> [R0 EXCEPT !.k = "bytes", !.by = d]]
    [] op.o = "close" -> [st |-> IF var = "fw_no_close" THEN st ELSE [st EXCEPT !.closed = TRUE, !.closes = @ + 1], exc |-> "", ret |-> R0]
    [] op.o = "tell" -> [st |-> st, exc |-> "", ret |-> [R0 EXCEPT !.k = "int", !.n = st.pos]]
    [] op.o = "seek" -> [st |-> [st EXCEPT !.pos = op.n, !.seeked = TRUE], exc |-> "", ret |-> R0]
    [] op.o = "seekable" -> [st |-> st, exc |-> "", ret |-> [R0 EXCEPT !.k = "bool", !.b = TRUE]]
    [] OTHER -> [st |-> st, exc |-> "", ret |-> R0]
FWPost(st) == [pos |-> st.pos, closes |-> st.closes]
FWObs(r) == [exc |-> r.exc, ret |-> r.ret, post |-> FWPost(r.st)]

FWClause(c, st, op, prev, o) ==
  LET rest == IF st.closed THEN <<>> ELSE Drop(c.content, st.pos) IN
  \* FileWrapper: "It yields `buffer_size` blocks until the file is fully read." / wrap_file: "buffer_size: number of
  \*   bytes for one iteration."
  IF op.o = "next" /\ rest = <<>> /\ o.exc # "StopIteration" THEN "FWStopsAtEnd"
  ELSE IF op.o = "next" /\ rest # <<>> /\ (o.exc # "" \/ o.ret.k # "bytes") THEN "FWReadsAll"
  ELSE IF op.o = "next" /\ rest # <<>> /\ c.short = 0 /\ o.ret.by # Take(rest, c.bs) THEN "FWBlock"
  ELSE IF op.o = "next" /\ rest # <<>> /\ (o.ret.by = <<>> \/ Len(o.ret.by) > c.bs \/ ~IsPrefixOf(o.ret.by, rest)) THEN "FWBlock"
  \* wrap_file: "More information about file wrappers are available in PEP 333." -- PEP 3333: the object "must have a
  \*   close() method that invokes the original file-like object's close() method"
  ELSE IF op.o = "close" /\ (o.exc # "" \/ o.post.closes # prev.closes + 1) THEN "FWClose"
  \* make_conditional: "your response data object implements seekable, seek and tell methods as described by io.IOBase.
  \*   Objects returned by wrap_file automatically implement those methods."
  ELSE IF op.o = "tell" /\ (o.exc # "" \/ o.ret.k # "int" \/ o.ret.n # st.pos) THEN "FWTell"
  ELSE IF op.o = "seekable" /\ (o.exc # "" \/ o.ret.k # "bool" \/ ~o.ret.b) THEN "FWSeekable"
  ELSE IF op.o = "seek" /\ (o.exc # "" \/ o.post.pos # op.n) THEN "FWSeek"
  ELSE "ok"
\* the whole iteration: the blocks cover the file exactly, all but the last one are buffer_size long
FWCover(c, st) ==
  (st.stopped /\ ~st.seeked /\ ~st.closed)
     => /\ Concat(st.out) = Drop(c.content, c.pos0)
        /\ c.short = 0 => \A j \in 1..Len(st.out) - 1 : Len(st.out[j]) = c.bs
\* wrap_file: "This uses the WSGI server's file wrapper if available or otherwise the generic FileWrapper."
\* obs = [made: FileWrapper|server|other, args (the server's wrapper got the file and the buffer size), bs]
WrapFileClause(server, bsgiven, obs) ==
  IF server /\ (obs.made # "server" \/ ~obs.args) THEN "WrapFileUsesServerWrapper"
  ELSE IF ~server /\ obs.made # "FileWrapper" THEN "WrapFileGeneric"
  ELSE IF obs.bs # (IF bsgiven > 0 THEN bsgiven ELSE 8192) THEN "WrapFileBufferSize"      \* "buffer_size: int = 8192"
  ELSE "ok"

\* =========================================================== from_app / force_type
\* case c = [via: from_app|force_env|force_noenv|force_resp, items, nw (write() calls before the iterable is
\*           returned, each b"w"), hc, buffered]
\* out    = [exc, cls, same, data, st (status code), hx (the app's header arrived), y0, stops0, closes0 (right after
\*           the call), closes1 (after get_data() and close())]
AppData(c) == Concat([j \in 1..c.nw |-> <<119>>]) \o BytesOf(c.items)
AppOut(var, c) ==
  LET n == Len(c.items)
      buf == c.buffered /\ c.via = "from_app" /\ var # "app_not_buffered"
      h == IF c.hc THEN 1 ELSE 0
  IN IF c.via = "force_noenv" THEN [exc |-> "TypeError", cls |-> "", same |-> FALSE, data |-> <<>>, st |-> 0, hx |-> FALSE,
                                    y0 |-> 0, stops0 |-> 0, closes0 |-> 0, closes1 |-> 0]
     ELSE [exc |-> "", cls |-> "Sub", same |-> c.via = "force_resp",
           \* "app_buffered_drops_written" = run_wsgi_app before fixes/X04-run-wsgi-app-buffered-drops-written-data.diff
           data |-> IF var = "app_drops_written" \/ (var = "app_buffered_drops_written" /\ c.buffered /\ c.via = "from_app")
                    THEN BytesOf(c.items) ELSE AppData(c), st |-> 201, hx |-> TRUE,
           y0 |-> IF c.via = "force_resp" THEN 0 ELSE IF buf THEN n ELSE Min2(1, n),
           stops0 |-> IF c.via = "force_resp" THEN 0 ELSE IF buf \/ n = 0 THEN 1 ELSE 0,
           closes0 |-> IF buf THEN h ELSE 0,
           closes1 |-> IF var = "app_never_closed" THEN 0 ELSE h]
AppClause(c, o) ==
  \* force_type: "it will also convert arbitrary WSGI callables into response objects if an environ is provided"
  IF c.via = "force_noenv" THEN (IF o.exc = "" THEN "ForceTypeNeedsEnviron" ELSE "ok")
  ELSE IF o.exc # "" THEN "AppRaised"
  \* from_app: "Create a new response object from an application output." / force_type: "Enforce that the WSGI
  \*   response is a response object of the current type."
  ELSE IF o.cls # "Sub" THEN "AppResponseType"
  \* force_type: "Keep in mind that this will modify response objects in place if possible!"
  ELSE IF c.via = "force_resp" /\ ~o.same THEN "ForceTypeInPlace"
  \* from_app: "Sometimes applications may use the `write()` callable returned by the `start_response` function.  This
  \*   tries to resolve such edge cases automatically."  (what was written precedes what the iterable yields)
  ELSE IF o.data # AppData(c) THEN "AppData"
  ELSE IF o.st # 201 \/ ~o.hx THEN "AppStatusHeaders"
  \* from_app: "you should set `buffered` to `True` which enforces buffering." / Client.open: "buffered: Convert the
  \*   iterator returned by the app into a list.  If the iterator has a close() method, it is called automatically."
  ELSE IF c.via = "from_app" /\ c.buffered /\ (o.y0 # Len(c.items) \/ o.closes0 # (IF c.hc THEN 1 ELSE 0)) THEN "AppBuffered"
  \* PEP 3333 / ClosingIterator: the close() of the iterable the application returned is called, once
  ELSE IF c.via # "force_resp" /\ o.closes1 # (IF c.hc THEN 1 ELSE 0) THEN "AppIterableClosedOnce"
  ELSE "ok"
=============================================================================
