CONSTANTS
  Variant = "fixed"
  MaxDepth = 4
INIT FWInitS
NEXT FWNextS
CHECK_DEADLOCK FALSE
VIEW View
PROPERTY StepsOK
INVARIANT FWCovered
ACTION_CONSTRAINT CIExport
