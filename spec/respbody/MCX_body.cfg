CONSTANTS
  Variant = "fixed"
  MaxDepth = 2
  Universe = "quick"
INIT Init
NEXT Next
CHECK_DEADLOCK FALSE
VIEW View
PROPERTY StepsOK
INVARIANT Conserved
ACTION_CONSTRAINT Export
