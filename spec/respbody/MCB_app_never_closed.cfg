CONSTANTS
  Variant = "app_never_closed"
  MaxDepth = 1
INIT AppInitS
NEXT NoNext
CHECK_DEADLOCK FALSE
VIEW View
INVARIANT AppOK
