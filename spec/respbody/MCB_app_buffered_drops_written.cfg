CONSTANTS
  Variant = "app_buffered_drops_written"
  MaxDepth = 1
INIT AppInitS
NEXT NoNext
CHECK_DEADLOCK FALSE
VIEW View
INVARIANT AppOK
