CONSTANTS
  Variant = "deferred"
  MaxDepth = 3
  Universe = "mini"
INIT Init
NEXT Next
CHECK_DEADLOCK FALSE
VIEW View
PROPERTY StepsOK
INVARIANT Conserved
