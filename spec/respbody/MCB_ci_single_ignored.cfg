CONSTANTS
  Variant = "ci_single_ignored"
  MaxDepth = 3
INIT CIInitS
NEXT CINextS
CHECK_DEADLOCK FALSE
VIEW View
PROPERTY StepsOK
