#!/usr/bin/env python3
"""tools/register.py <id> <json-file-or-'-'>: add/replace a CHECKS entry in harness/registry.py (keys: category,text,note,technique,design_ref) and drop it from NOT_APPLICABLE."""
import json, re, sys, pprint
pid = sys.argv[1]
d = json.load(sys.stdin if sys.argv[2] == "-" else open(sys.argv[2]))
p = "/verif/harness/registry.py"
s = open(p).read()
# drop an existing entry
s = re.sub(r'    "%s": dict\(\n(?:        .*\n)*?    \),\n' % pid, "", s)
entry = '    "%s": dict(\n' % pid
for k in ("category", "text", "note", "technique", "design_ref"):
    entry += "        %s=%s,\n" % (k, json.dumps(d[k], ensure_ascii=False))
entry += "    ),\n"
s = s.replace("    # --- END CHECKS", entry + "    # --- END CHECKS")
s = re.sub(r'    "%s": "[^\n]*\n' % pid, "", s)
open(p, "w").write(s)
print("registered", pid)
