#!/bin/sh
# run TLC by hand: tools/tl.sh <area> <module> <cfg> [tlc args...]   (deadlock checking off)
a=$1; m=$2; c=$3; shift 3
mkdir -p /var/tmp/vt
cd /verif/spec/$a && java -XX:+UseParallelGC -Xss256m -cp /verif/spec/lib:/opt/veriftools/tla/tla2tools.jar:/opt/veriftools/tla/CommunityModules-deps.jar tlc2.TLC -metadir /var/tmp/vt/m$$ -noGenerateSpecTE -deadlock -config $c.cfg "$@" $m.tla 2>&1 | grep -v "^Parsing\|^Semantic\|^Linting"; rm -rf /var/tmp/vt/m$$
