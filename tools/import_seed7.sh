#!/bin/sh
# import the round-7 seed of property $1 as <id>-m13 (only if complete), remove the agent's worktree
id=$1
src=/tmp/seed7/out/$id/m1; dst=/verif/seeded/$id-m13
if [ -f $src/patch.diff ] && [ -f $src/meta.json ] && [ -f $src/demo_test.py ]; then mkdir -p $dst; cp $src/* $dst/; echo "imported $dst"; else echo "INCOMPLETE $src"; fi
git -C /repo worktree remove --force /tmp/seed7/wt-$id 2>/dev/null
