#!/bin/sh
# tools/sweep.sh [tier] [ids...]: run every registered check once, print one line each (evidence files are rewritten)
cd "$(dirname "$0")/.." || exit 2
tier=${1:-quick}; shift 2>/dev/null
ids="$@"; [ -z "$ids" ] && ids=$(python3 -c "import json;print(' '.join(c['property_id'] for c in json.load(open('MANIFEST.json'))['checks']))")
d=/var/tmp/sweep-$$; mkdir -p $d
for id in $ids; do
  ./check $id $tier > $d/$id.log 2>&1; rc=$?
  echo "$id rc=$rc $(tail -n 1 $d/$id.log | cut -c1-200)"
  grep "^VIOLATION\|MACHINERY" $d/$id.log | head -3
done
