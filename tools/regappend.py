#!/usr/bin/env python3
"""tools/regappend.py <id> <field> <text-to-append>: append to a registry field (re-registers the entry)."""
import json, subprocess, sys
sys.path.insert(0, "/verif")
from harness.registry import CHECKS
pid, field, extra = sys.argv[1], sys.argv[2], sys.argv[3]
d = dict(CHECKS[pid]); d[field] = d[field] + extra
subprocess.run([sys.executable, "/verif/tools/register.py", pid, "-"], input=json.dumps(d), text=True, check=True)
