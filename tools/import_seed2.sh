#!/bin/sh
# import round-2 seeds of property $1 as <id>-m3 / <id>-m4
id=$1
for k in 1 2; do
  src=/tmp/seed2/out/$id/m$k; dst=/verif/seeded/$id-m$((k+2))
  [ -d $src ] || { echo "missing $src"; continue; }
  mkdir -p $dst; cp $src/* $dst/
done
ls /verif/seeded | grep "^$id-"
