#!/bin/sh
# usage: tools/extras.sh [quick|thorough]  -- runs every extension-area check (ids X..), evidence in evidence_extra/
cd /verif; tier=${1:-quick}; rc=0
for f in harness/props/x[0-9][0-9].py; do
  [ -f "$f" ] || continue
  id=$(basename $f .py | tr a-z A-Z)
  ./check $id $tier | tail -n 3 || rc=1
done
exit $rc
