#!/bin/sh
# usage: tools/confirm_seed.sh <seeded/ID-mK> ...
# Independent confirmation of a seeded change in a scratch worktree of /repo HEAD (never /repo itself):
# the patch applies, the repository's own test suite still passes with it, the demonstration fails with it
# and passes without it.  Writes <dir>/confirmed.json; removes the worktree.
for d in "$@"; do
  d=$(readlink -f $d); name=$(basename $d)
  wt=/var/tmp/confwt-$name-$$
  git -C /repo worktree add -q --detach $wt HEAD || exit 2
  head=$(git -C /repo rev-parse --short HEAD)
  applies=false; suite=""; demo_with=""; demo_without=""
  if ( cd $wt && git apply $d/patch.diff ); then
    applies=true
    suite=$(cd $wt && PYTHONPATH=$wt/src /venv/bin/python -m pytest -q -p no:cacheprovider -n 4 tests 2>&1 | tail -n 1)
    demo_with=$(cd $wt && PYTHONPATH=$wt/src /venv/bin/python -m pytest -q -p no:cacheprovider $d/demo_test.py 2>&1 | tail -n 1)
    ( cd $wt && git checkout -q -- . )
    demo_without=$(cd $wt && PYTHONPATH=$wt/src /venv/bin/python -m pytest -q -p no:cacheprovider $d/demo_test.py 2>&1 | tail -n 1)
  fi
  git -C /repo worktree remove --force $wt
  python3 - "$d" "$head" "$applies" "$suite" "$demo_with" "$demo_without" <<'PY'
import json, sys, re
d, head, applies, suite, dw, dwo = sys.argv[1:7]
ok = (applies == "true" and "passed" in suite and "failed" not in suite and "error" not in suite.lower()
      and "failed" in dw and "passed" in dwo and "failed" not in dwo)
json.dump({"repo_head": head, "applies": applies == "true", "suite_with_patch": suite, "demo_with_patch": dw,
           "demo_without_patch": dwo, "confirmed": ok}, open(d + "/confirmed.json", "w"), indent=1)
print(d.split("/")[-1], "CONFIRMED" if ok else "NOT-CONFIRMED", "|", suite, "|", dw, "|", dwo)
PY
done
