#!/bin/sh
# usage: tools/seedtest.sh <patch.diff> <property-id> [quick|thorough]   -- apply seeded change, run check, revert
p=$(readlink -f "$1"); id=$2; tier=${3:-quick}
cd /repo || exit 2
if ! git diff --quiet; then echo "repo dirty"; exit 2; fi
git apply "$p" || { echo "patch does not apply"; exit 2; }
cd /verif && ./check $id $tier > /var/tmp/integ/seed-$id.log 2>&1; rc=$?
git -C /repo checkout -- .
grep -c "^VIOLATION" /var/tmp/integ/seed-$id.log | sed "s/^/violation lines: /"
grep "clause=" /var/tmp/integ/seed-$id.log | sort | uniq -c | head -8
tail -1 /var/tmp/integ/seed-$id.log
echo "exit=$rc"
git -C /verif checkout -- evidence 2>/dev/null
