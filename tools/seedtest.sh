#!/bin/sh
# usage: tools/seedtest.sh <patch.diff> <property-id> [quick|thorough]
# Applies a seeded change in a scratch worktree of /repo (never /repo itself), runs the check against it
# with VERIF_REPO, removes the worktree.  The evidence file of the property is preserved.
p=$(readlink -f "$1"); id=$2; tier=${3:-quick}
wt=/var/tmp/seedwt-$id-$$
mkdir -p /var/tmp/integ
git -C /repo worktree add -q --detach $wt HEAD || exit 2
( cd $wt && git apply "$p" ) || { echo "patch does not apply"; git -C /repo worktree remove --force $wt; exit 2; }
cd /verif
[ -f evidence/$id.json ] && cp evidence/$id.json /var/tmp/integ/evsave-$id-$$.json
VERIF_REPO=$wt ./check $id $tier > /var/tmp/integ/seed-$id.log 2>&1; rc=$?
[ -f /var/tmp/integ/evsave-$id-$$.json ] && mv /var/tmp/integ/evsave-$id-$$.json evidence/$id.json
git -C /repo worktree remove --force $wt
grep -c "^VIOLATION" /var/tmp/integ/seed-$id.log | sed "s/^/violation lines: /"
grep "clause=" /var/tmp/integ/seed-$id.log | sort | uniq -c | head -8
tail -n 1 /var/tmp/integ/seed-$id.log
echo "exit=$rc"
