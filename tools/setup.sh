#!/bin/sh
# Offline setup: nothing to build; create scratch dirs and syntax-check every spec with SANY.
cd "$(dirname "$0")/.." || exit 1
mkdir -p evidence out/replays "${VERIF_TMP:-/var/tmp}"
rc=0
for f in spec/*/*.tla; do
  d=$(dirname "$f")
  case "$f" in spec/lib/*) continue;; esac
  out=$(cd "$d" && java -cp /verif/spec/lib:/opt/veriftools/tla/tla2tools.jar:/opt/veriftools/tla/CommunityModules-deps.jar tla2sany.SANY "$(basename "$f")" 2>&1)
  if echo "$out" | grep -q "Errors\|Parse Error\|Fatal"; then echo "SANY FAILED: $f"; echo "$out" | tail -15; rc=1; fi
done
/venv/bin/python -c "import hypothesis, sys; sys.path.insert(0,'/repo/src'); import werkzeug" || rc=1
exit $rc
