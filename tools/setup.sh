#!/bin/sh
# Offline setup: nothing to build; create scratch dirs and syntax-check every spec with SANY.
cd "$(dirname "$0")/.." || exit 1
mkdir -p evidence out/replays "${VERIF_TMP:-/var/tmp}"
rc=0
jt="${VERIF_TMP:-/var/tmp}/verif-setup-jtmp-$$"; mkdir -p "$jt"   # SANY's scratch directories (removed below), not /tmp
for f in spec/*/*.tla; do
  d=$(dirname "$f")
  case "$f" in spec/lib/*) continue;; esac
  out=$(cd "$d" && java -Djava.io.tmpdir="$jt" -cp /verif/spec/lib:/opt/veriftools/tla/tla2tools.jar:/opt/veriftools/tla/CommunityModules-deps.jar tla2sany.SANY "$(basename "$f")" 2>&1)
  # informational only: a spec that is still being built must not break the setup of the other checks
  if echo "$out" | grep -q "Errors\|Parse Error\|Fatal"; then echo "SANY WARNING: $f does not parse on its own (MC wrappers that need constants are fine)"; fi
done
rm -rf "$jt"
/venv/bin/python -c "import hypothesis, sys; sys.path.insert(0,'/repo/src'); import werkzeug" || rc=1
exit $rc
