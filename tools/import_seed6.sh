#!/bin/sh
# import round-6 seeds of property $1 as <id>-m11 / <id>-m12 (only complete ones), remove the agent's worktree
id=$1
for k in 1 2; do
  src=/tmp/seed6/out/$id/m$k; dst=/verif/seeded/$id-m$((k+10))
  if [ -f $src/patch.diff ] && [ -f $src/meta.json ] && [ -f $src/demo_test.py ]; then mkdir -p $dst; cp $src/* $dst/; echo "imported $dst"; else echo "INCOMPLETE $src"; fi
done
git -C /repo worktree remove --force /tmp/seed6/wt-$id 2>/dev/null
