#!/usr/bin/env python3
"""Regenerate MANIFEST.json from harness/registry.py and validate it (run with python3-vt for validation)."""
import json, os, sys
sys.path.insert(0, os.path.dirname(os.path.dirname(os.path.abspath(__file__))))
from harness.registry import CHECKS, NOT_APPLICABLE

BASELINE = "cd /repo && /venv/bin/python -m pytest -ra -q -p no:cacheprovider --timeout=900 --continue-on-collection-errors"
m = {
    "version": 1,
    "setup_cmd": "sh tools/setup.sh",
    "hooks": {
        "guard": "WERKZEUG_VERIF",
        "enable": "none needed: all recorders wrap the public API from the harness process (no in-tree hooks); the guard name is reserved",
        "baseline_off_cmd": BASELINE,
        "source_commits": [],
        "add_only": True,
    },
    "engines": [
        {"name": "tlc", "path": "/opt/veriftools/tla/tla2tools.jar", "serves_properties": sorted(CHECKS),
         "kind_free_text": "TLC 1.8 explicit-state model checker: exhaustive bounded models, behaviour export, batch trace judge"},
    ],
    "checks": [],
    "notes": ("All checks: ./check <id> quick|thorough; verdicts are decided by TLC on TLA+ specs under spec/; see DESIGN.md. "
              "Beyond the listed properties the specification also covers extension areas X01..X06 (ProxyFix, test Client, "
              "request-body access, Response body states, LintMiddleware, reloader): ./check X0n quick|thorough or "
              "tools/extras.sh [tier], evidence in evidence_extra/ (DESIGN.md section 12); they are not claims about listed properties."),
    "not_applicable": [],
}
for pid in sorted(CHECKS):
    c = CHECKS[pid]
    m["checks"].append({
        "property_id": pid,
        "quick_cmd": f"./check {pid} quick",
        "thorough_cmd": f"./check {pid} thorough",
        "evidence_file": f"/verif/evidence/{pid}.json",
        "replay_cmd_template": f"./check {pid} --replay {{path}}",
        "engine": "tlc",
        "level_claimed": {"category": c["category"], "text": c["text"], "design_ref": c["design_ref"]},
        "level_note": c["note"],
        "technique": c["technique"],
    })
for pid, reason in sorted(NOT_APPLICABLE.items()):
    m["not_applicable"].append({"property_id": pid, "reason": reason})
root = os.path.dirname(os.path.dirname(os.path.abspath(__file__)))
with open(os.path.join(root, "MANIFEST.json"), "w") as f:
    json.dump(m, f, indent=1)
    f.write("\n")
try:
    import jsonschema
    jsonschema.validate(m, json.load(open("/root/.vp/MANIFEST.schema.json")))
    for pid in CHECKS:
        p = os.path.join(root, "evidence", f"{pid}.json")
        if os.path.exists(p):
            jsonschema.validate(json.load(open(p)), json.load(open("/root/.vp/EVIDENCE.schema.json")))
    print("MANIFEST.json valid;", len(m["checks"]), "checks,", len(m["not_applicable"]), "not applicable")
except ImportError:
    print("MANIFEST.json written (jsonschema not available for validation)")
